// C18: -t clean (everything, by target, by rule) and -t cleandead delete only what is in their scope, and all of it.
// Real code: Cleaner::{CleanAll,CleanTargets,CleanRules,CleanDead,LoadDyndeps,RemoveEdgeFiles}, DyndepLoader, ManifestParser, BuildLog entries.
#include "scenarios.h"
#define private public
#include "clean.h"
#undef private
static const char* kManifest =
  "rule cc\n  command = cc $in -o $out\n"
  "rule ccf\n  command = cc -MD $in -o $out\n  depfile = $out.d\n"
  "rule link\n  command = ld @$out.rsp\n  rspfile = $out.rsp\n  rspfile_content = $in\n"
  "rule conf\n  command = configure\n  generator = 1\n  depfile = $out.d\n"
  "rule scan\n  command = scan\n"
  "build cfg: conf s\n"
  "build o1: ccf c1\n"
  "build o2 | o2.extra: cc c2 cfg\n"
  "build app: link o1 o2\n"
  "build all: phony app\n"
  "build hdr.h: phony\n"                      // a source file declared as the output of a phony statement (CMake does this)
  "build lib: cc c3 hdr.h\n"
  "build dd0: scan c4\n"
  "build dyn0: cc c4 || dd0\n  dyndep = dd0\n"
  "build dd: scan c4\n"
  "build dyn: cc c4 || dd\n  dyndep = dd\n";
static const char* kDyndep0 = "ninja_dyndep_version = 1\nbuild dyn0: dyndep\n";
static const char* kDyndep = "ninja_dyndep_version = 1\nbuild dyn | dyn.imp: dyndep\n";
static const Scenario kCleanScenario = { "clean", { kManifest, NULL, NULL }, "s c1 c2 c3 c4 hdr.h", "all lib dyn", { { NULL } } };
static const char* kFiles[] = { "cfg", "o1", "o1.d", "o2", "o2.extra", "app", "app.rsp", "lib", "dd", "dyn", "dyn.imp", "all", "old.o", "cfg.d", "dd0", "dyn0" };
static const int kNFiles = 16;
static bool in_list(const std::vector<std::string>& v, const std::string& x) { for (size_t i = 0; i < v.size(); i++) if (v[i] == x) return true; return false; }

extern "C" int harness_main() {
  ir2c_global_ctors();
  init_tree(&kCleanScenario);
  // every built file exists, except possibly one; a stray file carries the phony name 'all'; old.o is left over from a removed statement
  int missing = verif_choice("missing_file", kNFiles + 1) - 1;
  for (int i = 0; i < kNFiles; i++) if (i != missing) { if (std::string(kFiles[i]) == "dd") g_tree->write_text("dd", kDyndep); else if (std::string(kFiles[i]) == "dd0") g_tree->write_text("dd0", kDyndep0); else g_tree->write(kFiles[i], 500 + i); }
  State state; SymDisk disk; std::string err; ManifestParser parser(&state, &disk);
  VERIF_ASSERT(parser.Load("build.ninja", &err), "manifest parses");
  BuildConfig config; config.verbosity = BuildConfig::QUIET; config.dry_run = verif_bool("dry_run");
  size_t log_before = g_tree->log.size();
  Cleaner cleaner(&state, config, &disk);
  int mode = verif_choice("mode", 4);          // 0 all, 1 targets, 2 rules, 3 cleandead
  std::vector<std::string> scope; bool scope_known = true; int rc = 0;
  bool dyn_known = g_tree->exists("dd");       // the dyndep file is loaded only if it exists
  if (mode == 0) {
    bool g = verif_bool("generator_flag");
    rc = cleaner.CleanAll(g);
    const char* s[] = { "o1", "o1.d", "o2", "o2.extra", "app", "app.rsp", "lib", "dd", "dyn", "dd0", "dyn0" }; for (int i = 0; i < 11; i++) scope.push_back(s[i]);
    if (dyn_known) scope.push_back("dyn.imp");
    if (g) { scope.push_back("cfg"); scope.push_back("cfg.d"); }
    verif_reach("clean-all");
  } else if (mode == 1) {
    static const char* kT[] = { "app", "all", "lib", "o2", "dyn", "hdr.h", "c1" };
    int t = verif_choice("target", 7); char buf[16]; strcpy(buf, kT[t]); char* argv[1] = { buf };
    rc = cleaner.CleanTargets(1, argv);
    if (t == 0 || t == 1) { const char* s[] = { "app", "app.rsp", "o1", "o1.d", "o2", "o2.extra", "cfg", "cfg.d" }; for (int i = 0; i < 8; i++) scope.push_back(s[i]); }
    else if (t == 2) scope.push_back("lib");
    else if (t == 3) { scope.push_back("o2"); scope.push_back("o2.extra"); scope.push_back("cfg"); scope.push_back("cfg.d"); }
    else if (t == 4) { scope.push_back("dyn"); scope.push_back("dd"); if (dyn_known) scope.push_back("dyn.imp"); }
    verif_reach("clean-target");
  } else if (mode == 2) {
    static const char* kR[] = { "cc", "ccf", "link", "conf", "phony", "scan" };
    int r = verif_choice("rule", 6); char buf[16]; strcpy(buf, kR[r]); char* argv[1] = { buf };
    rc = cleaner.CleanRules(1, argv);
    if (r == 0) { const char* s[] = { "o2", "o2.extra", "lib", "dyn", "dyn0" }; for (int i = 0; i < 5; i++) scope.push_back(s[i]); if (dyn_known) scope.push_back("dyn.imp"); }
    else if (r == 1) { scope.push_back("o1"); scope.push_back("o1.d"); }
    else if (r == 2) { scope.push_back("app"); scope.push_back("app.rsp"); }
    else if (r == 3) { scope.push_back("cfg"); scope.push_back("cfg.d"); }
    else if (r == 5) { scope.push_back("dd"); scope.push_back("dd0"); }
    // r == 4 (phony): phony statements build nothing, so nothing is in scope
    verif_reach("clean-rule");
  } else {
    BuildLog log;
    const char* recorded[] = { "o1", "old.o", "app", "c1", "dyn.imp", "gone.o" };
    for (int i = 0; i < 6; i++) log.entries_.emplace(*new std::string(recorded[i]), std::unique_ptr<BuildLog::LogEntry>(new BuildLog::LogEntry(recorded[i], 1, 1, 2, 3)));
    for (BuildLog::Entries::iterator it = log.entries_.begin(); it != log.entries_.end(); ++it) { }
    rc = cleaner.CleanDead(log.entries());
    scope.push_back("old.o"); scope.push_back("gone.o");
    if (!dyn_known) scope.push_back("dyn.imp");      // without the dyndep file nothing in the graph mentions dyn.imp any more
    verif_reach("clean-dead");
  }
  VERIF_ASSERT(rc == 0, "C18: cleaning succeeds");
  // safety: every deletion is in scope; never a source, a phony name or (plain clean) a generator output
  bool safe = true; int removed = 0;
  for (size_t i = log_before; i < g_tree->log.size(); i++) {
    const std::string& ev = g_tree->log[i];
    if (ev.compare(0, 7, "remove ") != 0) continue;
    removed++; safe = safe && in_list(scope, ev.substr(7));
  }
  VERIF_ASSERT(safe, "C18: only outputs, depfiles and response files of the statements in scope (or dead log entries) are deleted");
  const char* sources[] = { "s", "c1", "c2", "c3", "c4", "hdr.h" };
  bool sources_ok = true; for (int i = 0; i < 6; i++) sources_ok = sources_ok && g_tree->exists(sources[i]);
  VERIF_ASSERT(sources_ok, "C18: no source file is ever deleted");
  if (missing != 11) VERIF_ASSERT(g_tree->exists("all"), "C18: a file that merely carries a phony name is never deleted");
  // completeness: every existing file in scope is removed (dry run: counted, not removed)
  int expected = 0; bool all_gone = true;
  for (size_t i = 0; i < scope.size(); i++) { bool existed = false; for (int k = 0; k < kNFiles; k++) if (scope[i] == kFiles[k] && k != missing) existed = true; if (existed) { expected++; all_gone = all_gone && !g_tree->exists(scope[i]); } }
  if (config.dry_run) { VERIF_ASSERT(removed == 0, "C18: a dry run deletes nothing"); VERIF_ASSERT(cleaner.cleaned_files_count() == expected, "C18: a dry run reports exactly the files in scope"); verif_reach("dry-run"); }
  else { VERIF_ASSERT(all_gone && cleaner.cleaned_files_count() == expected, "C18: every existing file in scope is removed"); }
  verif_obs(removed); verif_obs(cleaner.cleaned_files_count());
  return 0;
}

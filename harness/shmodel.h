// shmodel.h — what POSIX sh does to an unquoted command-line fragment: field splitting with single quotes and backslash.
// Any character that sh would interpret outside quotes makes the model report "unsafe" (so an under-quoting change is caught);
// bytes that are literal to sh outside quotes are accepted literally (so widening ninja's safe set by a harmless byte raises nothing).
#ifndef SHMODEL_H_
#define SHMODEL_H_
#include <string>
#include <vector>
static inline bool sh_special_unquoted(unsigned char c, bool word_start) {
  switch (c) {
    case '|': case '&': case ';': case '<': case '>': case '(': case ')': case '$': case '`': case '"':
    case '*': case '?': case '[': return true;
    case '#': case '~': return word_start;
    default: return false;
  }
}
// returns false if the text contains something sh would interpret (or an unterminated quote)
static inline bool sh_split(const std::string& text, std::vector<std::string>* words) {
  std::string cur; bool in_word = false; size_t i = 0, n = text.size();
  while (i < n) {
    unsigned char c = text[i];
    if (c == ' ' || c == '\t' || c == '\n') { if (in_word) { words->push_back(cur); cur.clear(); in_word = false; } i++; continue; }
    if (c == '\'') {
      size_t j = i + 1;
      while (j < n && text[j] != '\'') { cur.push_back(text[j]); j++; }
      if (j >= n) return false;
      in_word = true; i = j + 1; continue;
    }
    if (c == '\\') { if (i + 1 >= n) return false; if (text[i + 1] != '\n') cur.push_back(text[i + 1]); in_word = true; i += 2; continue; }
    if (sh_special_unquoted(c, !in_word)) return false;
    cur.push_back(c); in_word = true; i++;
  }
  if (in_word) words->push_back(cur);
  return true;
}
#ifdef VERIF_NATIVE
#include <fcntl.h>
#include <stdio.h>
#include <stdlib.h>
#include <sys/wait.h>
#include <unistd.h>
// what the real /bin/sh makes of `set -- <text>`: its positional parameters, NUL separated
static inline bool real_sh_split(const std::string& text, std::vector<std::string>* words) {
  std::string script = "set -- " + text + "\nfor a in \"$@\"; do printf '%s\\0' \"$a\"; done\n";
  int fds[2]; if (pipe(fds) != 0) return false;
  pid_t pid = fork();
  if (pid == 0) { dup2(fds[1], 1); close(fds[0]); close(fds[1]); int dn = open("/dev/null", 1); dup2(dn, 2);
    execl("/bin/sh", "sh", "-c", script.c_str(), (char*)0); _exit(127); }
  close(fds[1]); std::string out; char buf[4096]; ssize_t k;
  while ((k = read(fds[0], buf, sizeof buf)) > 0) out.append(buf, k);
  close(fds[0]); int st = 0; waitpid(pid, &st, 0);
  if (!WIFEXITED(st) || WEXITSTATUS(st) != 0) return false;
  size_t p = 0; while (p < out.size()) { size_t q = out.find('\0', p); if (q == std::string::npos) q = out.size(); words->push_back(out.substr(p, q - p)); p = q + 1; }
  return true;
}
#include <fcntl.h>
#endif
#endif

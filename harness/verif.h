// verif.h — the interface between a harness and the engines (symbolic: engine/symex.py; native: support/native_driver.cc)
#ifndef VERIF_H_
#define VERIF_H_
#include <stddef.h>
#include <stdint.h>
extern "C" {
// a fresh symbolic value in [lo, hi] (inclusive), named for counterexamples and known-finding predicates
long verif_nondet(const char* name, long lo, long hi);
// the same value, made concrete (the engine forks once per feasible value): use where a size drives every loop that follows
long verif_concretize(long v);
void __CPROVER_assume(bool cond);
void __CPROVER_assert(bool cond, const char* msg);
// reachability witness: the check fails as vacuous unless every label the catalogue requires was reached on a feasible path
void verif_reach(const char* label);
// observable value, compared between the interpreter and the natively compiled harness (engine self-check)
void verif_obs(long v);
// free text attached to the path's sample in the evidence file
void verif_note(const char* text);
// runs the module's static constructors (State::kDefaultPool etc.); no-op natively
void ir2c_global_ctors(void);
// file system helpers on the engine's in-memory VFS / the real scratch directory natively
unsigned long verif_file_size(const char* path);             // (unsigned long)-1 if missing
void verif_vfs_save(int slot);                                // snapshot / restore of the persistent files of the code under test (.ninja_log, .ninja_deps): control experiments
void verif_vfs_restore(int slot);
unsigned long verif_file_hash(const char* path);             // content hash, (unsigned long)-1 if missing
void verif_vfs_freeze(int on);                               // while on, no stdio/unistd mutation persists ("the process is dead")
long verif_vfs_events(void);                                 // number of persistence events so far
void verif_vfs_die_after(long n);                            // the simulated process dies right after the n-th persistence event from now
int verif_vfs_event(void);                                   // a persistence event outside stdio (DiskInterface mutation); returns 1 if the process is dead
int verif_vfs_frozen(void);
void verif_expect_fatal(int on);
// what the code under test writes to stdout from now on is captured (natively: fd 1 is redirected to a temporary file)
void verif_set_tty(int on, int cols);                        // stdout pretends to be a terminal `cols` wide (0: width unknown): isatty(1), ioctl(TIOCGWINSZ)
void verif_stdout_capture(void);
long verif_stdout_len(void);
long verif_stdout_copy(char* buf, long cap);
long verif_stderr_copy(char* buf, long cap);                             // what was written to stderr since verif_stdout_capture()
// runs fn(arg); an exit(code) inside it flushes stdio and unwinds to the caller (no destructors, as in a real exit): returns code, or -1 if fn returned
long verif_call_catching_exit(void (*fn)(void*), void* arg);
}
#define VERIF_ASSERT(c, msg) __CPROVER_assert((c), msg)
#define VERIF_ASSUME(c) __CPROVER_assume((c))
static inline int verif_choice(const char* name, int n) { return (int)verif_nondet(name, 0, n - 1); }
static inline bool verif_bool(const char* name) { return verif_nondet(name, 0, 1) != 0; }
#endif

// C01 / C03 (kernel): the up-to-date decision for one statement on EVERY combination of time stamps, log state and rule flags.
// Real code: DependencyScan::RecomputeDirty -> RecomputeNodeDirty / RecomputeEdgesInputsDirty / RecomputeOutputsDirtyCache::{all, RecomputeOutputDirty},
// BuildLog::{RecordCommand, LookupByOutput}, Edge::GetBindingBool, State / Node.  The histories of the pipeline harness use a strictly increasing clock, so
// equal time stamps (a coarse file-system clock, a command that finishes within the same tick as an edit) only ever occur here.
#include "build_log.h"
#include "deps_log.h"
#include "disk_interface.h"
#include "graph.h"
#include "state.h"
#include "eval_env.h"
#include "verif.h"
#include <string>
#include <vector>
extern "C" void ir2c_global_ctors();
static const char* kNames[] = { "in1", "in2", "imp", "oo", "out", "hdr" };
static TimeStamp g_mtime[6];
struct KernelDisk : public DiskInterface {
  TimeStamp Stat(const std::string& path, std::string*) const override { for (int i = 0; i < 6; i++) if (path == kNames[i]) return g_mtime[i]; return 0; }
  bool WriteFile(const std::string&, const std::string&, bool) override { return true; }
  bool MakeDir(const std::string&) override { return true; }
  Status ReadFile(const std::string&, std::string*, std::string* err) override { *err = "no such file"; return NotFound; }
  int RemoveFile(const std::string&) override { return 0; }
};
extern "C" int harness_main() {
  ir2c_global_ctors();
  // 0 = the file does not exist; 1..4 = time stamps, any order, ties included
  for (int i = 0; i < 5; i++) g_mtime[i] = (TimeStamp)verif_nondet("mtime", 0, 4);
  const bool restat = verif_bool("restat"), generator = verif_bool("generator");
  const bool have_entry = verif_bool("log_has_entry"), hash_matches = verif_bool("recorded_command_is_current");
  const TimeStamp entry_mtime = (TimeStamp)verif_nondet("recorded_mtime", 0, 4);
  State state; std::string err;
  Rule* rule = new Rule("r"); { EvalString c; c.AddText("cmd"); rule->AddBinding("command", c); }
#ifdef DEPS_LOG
  { EvalString v; v.AddText("gcc"); rule->AddBinding("deps", v); }
#endif
  if (restat) { EvalString v; v.AddText("1"); rule->AddBinding("restat", v); }
  if (generator) { EvalString v; v.AddText("1"); rule->AddBinding("generator", v); }
  state.bindings_.AddRule(std::unique_ptr<const Rule>(rule));
  Edge* edge = state.AddEdge(rule);
#ifdef PHONY_ALIAS
  // the two explicit inputs reach the statement through a phony alias (no file of that name): its time stamp is the newest of what it stands for
  { Edge* alias = state.AddEdge(state.bindings_.LookupRule("phony")); state.AddIn(alias, "in1", 0); state.AddIn(alias, "in2", 0); VERIF_ASSERT(state.AddOut(alias, "lib", 0, &err), "set-up"); }
  state.AddIn(edge, "lib", 0);
#else
  state.AddIn(edge, "in1", 0); state.AddIn(edge, "in2", 0);
#endif
  state.AddIn(edge, "imp", 0); edge->implicit_deps_ = 1; state.AddIn(edge, "oo", 0); edge->order_only_deps_ = 1;
  VERIF_ASSERT(state.AddOut(edge, "out", 0, &err), "set-up");
  BuildLog log;
  if (have_entry) { log.RecordCommand(edge, 0, 1, entry_mtime); if (!hash_matches) log.LookupByOutput("out")->command_hash ^= 1; }
  KernelDisk disk;
  Node* out = state.LookupNode("out");
#ifdef DEPS_LOG
  // deps = gcc: a header known only from the deps log (record absent / present with any recorded mtime), itself missing or stamped 1..4
  g_mtime[5] = (TimeStamp)verif_nondet("header_mtime", 0, 4);
  const bool have_deps = verif_bool("deps_log_has_record"); const TimeStamp deps_mtime = (TimeStamp)verif_nondet("deps_record_mtime", 0, 4);
  DepsLog dlog; VERIF_ASSERT(dlog.OpenForWrite(".ninja_deps", &err), "set-up");
  if (have_deps) { std::vector<Node*> hs; hs.push_back(state.GetNode("hdr", 0)); VERIF_ASSERT(dlog.RecordDeps(out, deps_mtime, hs), "set-up"); }
  DependencyScan scan(&state, &log, &dlog, &disk, NULL, NULL);
#else
  DependencyScan scan(&state, &log, NULL, &disk, NULL, NULL);
#endif
  bool ok = scan.RecomputeDirty(out, NULL, &err);
  VERIF_ASSERT(ok, "C01: the dirty scan of an acyclic statement over plain sources succeeds");
  // the documented rule, stated from scratch
  const bool input_missing = g_mtime[0] == 0 || g_mtime[1] == 0 || g_mtime[2] == 0;       // (an absent order-only input does not count)
  TimeStamp newest = g_mtime[0]; if (g_mtime[1] > newest) newest = g_mtime[1]; if (g_mtime[2] > newest) newest = g_mtime[2];
  const TimeStamp out_m = g_mtime[4];
#ifdef DEPS_LOG
  // the recorded dependencies count like a declared implicit input - if there is a record and it is not older than the output; otherwise the statement runs
  const bool deps_usable = have_deps && !(out_m > deps_mtime);
  bool must_run = input_missing || out_m == 0 || !deps_usable || g_mtime[5] == 0;
  if (deps_usable && g_mtime[5] > newest) newest = g_mtime[5];
#else
  bool must_run = input_missing || out_m == 0;
#endif
  if (!must_run) {
    if (!(restat && have_entry) && out_m < newest) must_run = true;                       // output older than an input (a restat statement is judged by its record instead)
    if (have_entry && !generator && !hash_matches) must_run = true;                      // command line changed
    if (have_entry && entry_mtime < newest) must_run = true;                              // recorded before the newest input was written
    if (!have_entry && !generator) must_run = true;                                       // never recorded
  }
  VERIF_ASSERT(out->dirty() == must_run, "C01/C03: a statement is up to date exactly when its output exists, is not older than its newest non-order-only input (a restat statement: its record is not), and the log holds its current command (unless generator) recorded no earlier than that input");
  VERIF_ASSERT(edge->outputs_ready() == !must_run, "C01/C03: outputs_ready agrees with the dirty decision");
  verif_reach(must_run ? "must-run" : "up-to-date"); if (!must_run && out_m == newest) verif_reach("equal-stamps-up-to-date");
  verif_obs(out->dirty()); verif_obs(must_run);
  return 0;
}

// C13: whatever bytes a file holds, ninja processes them or reports an error: no out-of-bounds access, overflow, use after free,
// unbounded recursion, abort or hang.  One mode per consumer of file content; the engine's built-in checks are the oracle.
#include "verif.h"
#include <stdio.h>
#include <string.h>
#include <string>
#include <vector>
#ifndef VERIF_N
#define VERIF_N 3
#endif

static std::string sym_text(int n, const char* name = "byte", int lo = 0, int hi = 255) {
  std::string s((size_t)n, 'x');
  for (int i = 0; i < n; i++) s[i] = (char)verif_nondet(name, lo, hi);
  return s;
}
// a valid text with VERIF_N consecutive bytes at a symbolic position replaced by symbolic bytes ("all k-byte mutations")
static std::string mutate(const char* valid) {
  std::string s(valid);
  int pos = (int)verif_nondet("mutate_at", 0, (long)s.size() - VERIF_N);
  for (int i = 0; i < VERIF_N; i++) s[pos + i] = (char)verif_nondet("byte", 0, 255);
  return s;
}
static void write_file(const char* path, const std::string& bytes) {
  FILE* f = fopen(path, "wb"); fwrite(bytes.data(), 1, bytes.size(), f); fclose(f);
}

#if defined(MODE_DEPFILE)
#include "depfile_parser.h"
extern "C" int harness_main() {
  int len = (int)verif_nondet("len", 0, VERIF_N);
  std::string content = sym_text(len);
  std::string err; DepfileParser p;
  bool ok = p.Parse(&content, &err);
  if (!ok) VERIF_ASSERT(!err.empty(), "C13: a rejected depfile comes with an error message");
  for (size_t i = 0; i < p.ins_.size(); i++) VERIF_ASSERT(p.ins_[i].str_ >= content.data() && p.ins_[i].str_ + p.ins_[i].len_ <= content.data() + content.size(), "C13: depfile names point into the buffer");
  for (size_t i = 0; i < p.outs_.size(); i++) VERIF_ASSERT(p.outs_[i].str_ >= content.data() && p.outs_[i].str_ + p.outs_[i].len_ <= content.data() + content.size(), "C13: depfile names point into the buffer");
  verif_obs(ok); verif_obs((long)p.ins_.size()); verif_obs((long)p.outs_.size());
  verif_reach(ok ? "accepted" : "rejected");
  return 0;
}
#elif defined(MODE_DEPFILE_MUT)
#include "depfile_parser.h"
extern "C" int harness_main() {
  std::string content = mutate("out\\ put.o: a\\#b.c \\\n  d$$e.h c\\:f.h\r\nx.h:\n");
  std::string err; DepfileParser p;
  bool ok = p.Parse(&content, &err);
  verif_obs(ok); verif_obs((long)p.ins_.size()); verif_obs((long)p.outs_.size());
  verif_reach(ok ? "accepted" : "rejected");
  return 0;
}
#elif defined(MODE_CLPARSER)
#include "clparser.h"
extern "C" int harness_main() {
#ifdef MUTATE
  std::string output = mutate("foo.cc\r\nNote: including file:   c:\\a\\b.h\nNote: including file: x.h\r\nother\n");
#else
  int len = (int)verif_nondet("len", 0, VERIF_N);
  std::string output = sym_text(len);
#endif
  CLParser parser; std::string filtered, err;
  bool ok = parser.Parse(output, verif_bool("custom_prefix") ? "No" : "", &filtered, &err);
  verif_obs(ok); verif_obs((long)filtered.size()); verif_obs((long)parser.includes_.size());
  verif_reach(parser.includes_.empty() ? "no-include" : "include");
  return 0;
}
#elif defined(MODE_MAKEFLAGS)
#include "jobserver.h"
extern "C" int harness_main() {
#ifdef MUTATE
  std::string v = mutate(" -j8 --jobserver-auth=fifo:/tmp/f --jobserver-fds=3,4 -- X=1");
  for (size_t i = 0; i < v.size(); i++) VERIF_ASSUME(v[i] != 0);
#else
  int len = (int)verif_nondet("len", 0, VERIF_N);
  std::string v = sym_text(len, "byte", 1, 255);
#endif
  Jobserver::Config config; std::string err;
  bool ok = Jobserver::ParseMakeFlagsValue(v.c_str(), &config, &err);
  if (!ok) VERIF_ASSERT(!err.empty(), "C13: rejected MAKEFLAGS come with an error message");
  bool ok2 = Jobserver::ParseNativeMakeFlagsValue(v.c_str(), &config, &err);
  verif_obs(ok); verif_obs(ok2); verif_obs((long)config.mode);
  verif_reach(config.mode == Jobserver::Config::kModeNone ? "none" : "jobserver");
  return 0;
}
#elif defined(MODE_ANSI)
#include "util.h"
#include "elide_middle.h"
extern "C" int harness_main() {
  int len = (int)verif_nondet("len", 0, VERIF_N);
  std::string in = sym_text(len, "byte", 1, 255);
  std::string out = StripAnsiEscapeCodes(in);
  VERIF_ASSERT(out.size() <= in.size(), "C13: stripping escape codes never lengthens");
  std::string e = in;
  size_t width = (size_t)verif_nondet("width", 0, VERIF_N + 1);
  ElideMiddleInPlace(e, width);
  verif_obs((long)out.size()); verif_obs((long)e.size());
  verif_reach(out.size() < in.size() ? "stripped" : "kept");
  return 0;
}
#elif defined(MODE_STATUS)
#include "build.h"
#include "status_printer.h"
extern "C" int harness_main() {
  ir2c_global_ctors();
  int len = (int)verif_nondet("len", 0, VERIF_N);
  std::string fmt = sym_text(len, "byte", 1, 255);
  BuildConfig config; config.verbosity = BuildConfig::QUIET;
  StatusPrinter sp(config);
  verif_expect_fatal(1);          // an unknown placeholder is reported with Fatal(): an error, not a crash
  // (the format lives in a buffer of exactly its size, as the environment string does: stepping over the terminating NUL is an out-of-bounds read, not a
  // read of the unused part of a std::string's inline buffer)
  char* exact = (char*)malloc(fmt.size() + 1); memcpy(exact, fmt.c_str(), fmt.size() + 1);
  std::string s = sp.FormatProgressStatus(exact, 1000);
  free(exact);
  verif_expect_fatal(0);
  verif_obs((long)s.size());
  verif_reach("formatted");
  return 0;
}
#elif defined(MODE_BUILDLOG)
#include "build_log.h"
extern "C" int harness_main() {
  ir2c_global_ctors();
#ifdef MUTATE
  std::string body = mutate("# ninja log v7\n12\t34\t5678\tout.o\t1a2b3c\n1\t2\t3\tout2.o\tdeadbeef\n");
#else
  int len = (int)verif_nondet("len", 0, VERIF_N);
  std::string body = std::string("# ninja log v7\n") + sym_text(len);
#endif
  write_file(".ninja_log", body);
  BuildLog log; std::string err;
  LoadStatus st = log.Load(".ninja_log", &err);
  VERIF_ASSERT(st != LOAD_ERROR, "C13: a damaged build log never makes loading fail");
  verif_obs((long)st); verif_obs((long)log.entries().size());
  verif_reach(log.entries().empty() ? "no-entry" : "entry");
  return 0;
}
#elif defined(MODE_DEPSLOG)
#include "deps_log.h"
#include "graph.h"
#include "state.h"
// a valid header and two valid records, followed by VERIF_N records whose header word comes from a menu of sizes and kinds and whose payload words are
// fully symbolic; sizes that would make the engine enumerate millions of lengths are represented by the boundary values
extern "C" int harness_main() {
  ir2c_global_ctors();
  std::string body("# ninjadeps\n", 12);
  unsigned v = 4; body.append((char*)&v, 4);
  const char rec_a[] = { 8, 0, 0, 0, 'a', 0, 0, 0, (char)0xff, (char)0xff, (char)0xff, (char)0xff };            // path "a", id 0
  const char rec_b[] = { 8, 0, 0, 0, 'b', '.', 'h', 0, (char)0xfe, (char)0xff, (char)0xff, (char)0xff };        // path "b.h", id 1
  body.append(rec_a, sizeof rec_a); body.append(rec_b, sizeof rec_b);
  for (int r = 0; r < VERIF_N; r++) {
    unsigned is_deps = (unsigned)verif_nondet("is_deps", 0, 1);
    static const unsigned kSizes[] = { 0, 1, 4, 5, 6, 8, 12, 16, 20, (1u << 19), (1u << 19) + 1, 0x7fffffffu };
    unsigned size = kSizes[verif_choice("size_choice", 12)];
    unsigned payload = size <= 20 ? size : 24;
    int truncated = verif_choice("payload_truncated_by", 2);
    unsigned hdr = size | (is_deps << 31);
    body.append((char*)&hdr, 4);
    if (is_deps) {
      for (unsigned w = 0; w < payload / 4; w++) {
        // out id, mtime lo, mtime hi, dep ids: interesting integers
        static const int kInts[] = { 0, 1, 2, 3, -1, -2, 0x7fffffff, (int)0x80000000, 1000 };
        int x = kInts[verif_choice("word_choice", 9)]; body.append((char*)&x, 4);
      }
      for (unsigned k = 0; k < payload % 4; k++) body.push_back((char)verif_nondet("byte", 0, 255));
    } else {
      for (unsigned k = 0; k < payload; k++) { static const char kB[] = { 0, 'c', '/', (char)0xff, (char)0xfd, (char)0xfe }; body.push_back(kB[verif_choice("path_byte", 6)]); }
    }
    if (truncated && body.size() > 0) body.resize(body.size() - 1);
  }
  write_file(".ninja_deps", body);
  State state; DepsLog log; std::string err;
  LoadStatus st = log.Load(".ninja_deps", &state, &err);
  VERIF_ASSERT(st == LOAD_SUCCESS, "C13: a damaged deps log is recovered, never an error");
  // everything the loader kept must be usable
  for (size_t i = 0; i < log.nodes().size(); i++) {
    Node* n = log.nodes()[i];
    VERIF_ASSERT(n != NULL && n->id() == (int)i, "C13: deps log node table is consistent after loading");
    DepsLog::Deps* d = log.GetDeps(n);
    if (d) for (int k = 0; k < d->node_count; k++) VERIF_ASSERT(d->nodes[k] != NULL, "C13: loaded dependency lists hold valid nodes");
  }
  verif_obs((long)log.nodes().size()); verif_obs((long)verif_file_size(".ninja_deps"));
  verif_reach("loaded");
  return 0;
}
#elif defined(MODE_DYNDEP)
#include "disk_interface.h"
#include "dyndep.h"
#include "dyndep_parser.h"
#include "manifest_parser.h"
#include "state.h"
static std::string g_dd;
struct FR : public FileReader {
  Status ReadFile(const std::string& path, std::string* contents, std::string* err) override {
    if (path == "build.ninja") { *contents = "rule r\n  command = c\nbuild out: r in || dd\n  dyndep = dd\nbuild out2: r in || dd\n  dyndep = dd\nbuild other: r src\n"; return Okay; }
    if (path == "dd") { *contents = g_dd; return Okay; }
    *err = "no such file"; return NotFound;
  }
};
extern "C" int harness_main() {
  ir2c_global_ctors();
  State state; FR fr; std::string err;
  ManifestParser mp(&state, &fr);
  VERIF_ASSERT(mp.Load("build.ninja", &err), "manifest parses");
#if defined(STRUCT)
  // structure-aware: statements assembled from menus of node names (outputs of statements with/without the binding, sources, unknown names)
  static const char* kNames[] = { "out", "out2", "in", "dd", "other", "nosuch", "src" };
  g_dd = "ninja_dyndep_version = 1\n";
  // the two valid statements may each be present or missing; one further statement is assembled from the menus and placed anywhere
  bool have_out = verif_bool("valid_out_statement"), have_out2 = verif_bool("valid_out2_statement"), have_sym = verif_bool("extra_statement");
  int sym_pos = verif_choice("extra_statement_position", 3);
  for (int slot = 0; slot < 3; slot++) {
    if (have_sym && sym_pos == slot) {
      g_dd += "build "; g_dd += kNames[verif_choice("out_name", 7)];
      if (verif_bool("has_implicit_out")) { g_dd += " | "; g_dd += kNames[verif_choice("implicit_out_name", 7)]; }
      g_dd += ": dyndep";
      if (verif_bool("has_implicit_in")) { g_dd += " | "; g_dd += kNames[verif_choice("implicit_in_name", 7)]; }
      g_dd += "\n";
      if (verif_bool("restat")) g_dd += "  restat = 1\n";
    }
    if (slot == 0 && have_out) g_dd += "build out: dyndep\n";
    if (slot == 1 && have_out2) g_dd += "build out2: dyndep\n";
  }
  {
    DyndepFile ddf2; std::string err2;
    struct D : public DiskInterface {
      TimeStamp Stat(const std::string&, std::string*) const override { return 1; }
      bool WriteFile(const std::string&, const std::string&, bool) override { return true; }
      bool MakeDir(const std::string&) override { return true; }
      Status ReadFile(const std::string& path, std::string* contents, std::string* err) override { if (path == "dd") { *contents = g_dd; return Okay; } *err = "no"; return NotFound; }
      int RemoveFile(const std::string&) override { return 0; }
    } disk;
    DyndepLoader loader(&state, &disk);
    bool lok = loader.LoadDyndeps(state.LookupNode("dd"), &ddf2, &err2);     // the real consumer of the parsed file
    if (!lok) VERIF_ASSERT(!err2.empty(), "C13: a rejected dyndep file comes with an error message");
    verif_obs(lok); verif_reach(lok ? "accepted" : "rejected");
    return 0;
  }
#elif defined(MUTATE)
  g_dd = mutate("ninja_dyndep_version = 1\nbuild out | o$ i: dyndep | in2\n  restat = 1\nbuild out2: dyndep\n");
#else
  int len = (int)verif_nondet("len", 0, VERIF_N);
  g_dd = std::string("ninja_dyndep_version = 1\n") + sym_text(len);
#endif
  DyndepFile ddf; DyndepParser dp(&state, &fr, &ddf);
  bool ok = dp.Load("dd", &err);
  if (!ok) VERIF_ASSERT(!err.empty(), "C13: a rejected dyndep file comes with an error message");
  for (DyndepFile::iterator it = ddf.begin(); it != ddf.end(); ++it) VERIF_ASSERT(it->first != NULL, "C13: dyndep entries refer to build statements");
  verif_obs(ok); verif_obs((long)ddf.size());
  verif_reach(ok ? "accepted" : "rejected");
  return 0;
}
#elif defined(MODE_RULEVARS)
// rule variables that refer to each other in every possible way (structure-aware generation: the interesting inputs are reference graphs, not bytes):
// evaluation either terminates or ends in Fatal("cycle in rule variables"); it never recurses without bound
#include "disk_interface.h"
#include "manifest_parser.h"
#include "state.h"
#include "graph.h"
static std::string g_main;
struct FR : public FileReader {
  Status ReadFile(const std::string& path, std::string* contents, std::string* err) override {
    if (path == "build.ninja") { *contents = g_main; return Okay; }
    *err = "no such file"; return NotFound;
  }
};
extern "C" int harness_main() {
  ir2c_global_ctors();
  static const char* kTok[] = { "x", "$description", "$rspfile", "$rspfile_content" };
  static const char* kVar[] = { "description", "rspfile", "rspfile_content" };
  g_main = "rule r\n  command = $description $rspfile\n  depfile = $description\n";
  for (int v = 0; v < 3; v++) { int a = verif_choice("first_reference", 4), b = verif_choice("second_reference", 4); g_main += std::string("  ") + kVar[v] + " = " + kTok[a] + " " + kTok[b] + "\n"; }
  g_main += "build o: r i\n";
  State state; FR fr; std::string err;
  ManifestParser mp(&state, &fr);
  bool ok = mp.Load("build.ninja", &err);
  VERIF_ASSERT(ok && state.edges_.size() == 1, "C13: the rule-variable manifest parses");
  if (!ok || state.edges_.empty()) return 0;
  Edge* e = state.edges_[0];
  verif_expect_fatal(1);      // "cycle in rule variables" is the documented way out; unbounded recursion is not
  int order = verif_choice("evaluation_order", 2);
  long n = 0;
  if (order == 0) { n += (long)e->EvaluateCommand(true).size(); n += (long)e->GetBinding("description").size(); n += (long)e->GetUnescapedDepfile().size(); n += (long)e->GetUnescapedRspfile().size(); }
  else { n += (long)e->GetUnescapedRspfile().size(); n += (long)e->GetBinding("rspfile_content").size(); n += (long)e->GetBinding("description").size(); n += (long)e->EvaluateCommand(true).size(); }
  verif_obs(n); verif_reach("evaluated");
  return 0;
}
#elif defined(MODE_MANIFEST)
#include "disk_interface.h"
#include "manifest_parser.h"
#include "state.h"
static std::string g_main;
struct FR : public FileReader {
  Status ReadFile(const std::string& path, std::string* contents, std::string* err) override {
    if (path == "build.ninja") { *contents = g_main; return Okay; }
    if (path == "inc.ninja") { *contents = "v = 1\n"; return Okay; }
    *err = "no such file"; return NotFound;
  }
};
extern "C" int harness_main() {
  ir2c_global_ctors();
#ifdef SELF_INCLUDE
  g_main = verif_bool("subninja") ? "subninja build.ninja\n" : "include build.ninja\n";
#elif defined(MUTATE)
  g_main = mutate("v = a$ b\nrule r\n  command = c $in $v ${v}\npool p\n  depth = 2\nbuild o | o2: r i | j || k |@ w\n  pool = p\ninclude inc.ninja\ndefault o\n");
#else
  int len = (int)verif_nondet("len", 0, VERIF_N);
  g_main = sym_text(len);
#endif
  State state; FR fr; std::string err;
  ManifestParser mp(&state, &fr);
  bool ok = mp.Load("build.ninja", &err);
  if (!ok) VERIF_ASSERT(!err.empty(), "C13: a rejected manifest comes with an error message");
  verif_obs(ok); verif_obs((long)state.edges_.size());
  verif_reach(ok ? "accepted" : "rejected");
  return 0;
}
#endif

// C16 / C04 / C18 (src/disk_interface.cc): the real RealDiskInterface on the engine's in-memory file system / the real one natively.
//   - WriteFile leaves the file holding *exactly* the given bytes, whatever was there before (a response file left over by an earlier,
//     failed build may be longer than the new one)                                                                         [C16]
//   - MakeDirs creates every missing directory of an output path, and reports success when they exist already             [C04]
//   - Stat returns 0 for a missing file and a positive time for an existing one; RemoveFile removes exactly that file, returns 0,
//     and 1 when there was nothing to remove                                                                               [C18]
#include "disk_interface.h"
#include "verif.h"
#include <stdio.h>
#include <string>
#ifndef VERIF_N
#define VERIF_N 3
#endif
static std::string sym_text(const char* len_name, int maxlen) {
  int n = (int)verif_nondet(len_name, 0, maxlen); std::string s((size_t)n, 'x');
  for (int i = 0; i < n; i++) s[i] = (char)verif_nondet("byte", 1, 255);
  return s;
}
extern "C" int harness_main() {
  RealDiskInterface disk; std::string err;
  // directories
  int depth = (int)verif_nondet("dir_depth", 0, 3);
  std::string dir; static const char* kParts[] = { "obj", "sub dir", "x" };
  for (int i = 0; i < depth; i++) { dir += kParts[i]; dir += "/"; }
  std::string path = dir + "out.rsp";
  bool pre = depth > 0 && verif_bool("first_directory_exists_already");
  if (pre) VERIF_ASSERT(disk.MakeDir(kParts[0]), "set-up: mkdir");
  VERIF_ASSERT(disk.MakeDirs(path), "C04: MakeDirs creates the directories of an output path");
  { std::string d; for (int i = 0; i < depth; i++) { d += kParts[i]; VERIF_ASSERT(disk.Stat(d, &err) > 0, "C04: every directory on the way to an output exists after MakeDirs"); d += "/"; } }
  VERIF_ASSERT(disk.MakeDirs(path), "C04: MakeDirs succeeds when the directories exist already");
  VERIF_ASSERT(disk.Stat(path, &err) == 0, "C18: Stat of a missing file is 0");
  // contents: a first (possibly longer) version, then the one the command must see
  bool had_old = verif_bool("older_file_present");
  std::string old_content = sym_text("old_len", VERIF_N + 2), content = sym_text("len", VERIF_N);
  if (had_old) VERIF_ASSERT(disk.WriteFile(path, old_content, false), "C16: WriteFile succeeds");
  VERIF_ASSERT(disk.WriteFile(path, content, false), "C16: WriteFile succeeds");
  std::string back; DiskInterface::Status st = disk.ReadFile(path, &back, &err);
  VERIF_ASSERT(st == DiskInterface::Okay && back == content, "C16: after WriteFile the file holds exactly the given bytes, whatever it held before");
  VERIF_ASSERT((unsigned long)content.size() == verif_file_size(path.c_str()), "C16: the file is exactly as long as the content written");
  VERIF_ASSERT(disk.Stat(path, &err) > 0, "C18: Stat of an existing file is a positive time stamp");
  // an empty file is a file (the lock file is written this way)
  std::string lock = dir + ".ninja_lock";
  VERIF_ASSERT(disk.WriteFile(lock, "", false) && disk.Stat(lock, &err) > 0, "C07: writing an empty file creates it");
  // removal
  VERIF_ASSERT(disk.RemoveFile(path) == 0, "C18: RemoveFile removes an existing file and reports 0");
  VERIF_ASSERT(disk.Stat(path, &err) == 0, "C18: a removed file is gone");
  VERIF_ASSERT(disk.Stat(lock, &err) > 0, "C18: removing one file leaves its neighbours alone");
  VERIF_ASSERT(disk.RemoveFile(path) == 1, "C18: RemoveFile reports 1 when there was nothing to remove");
  st = disk.ReadFile(path, &back, &err);
  VERIF_ASSERT(st == DiskInterface::NotFound, "C18: reading a removed file reports NotFound");
  verif_reach(had_old ? "overwrote" : "created"); if (depth > 1) verif_reach("nested-dirs");
  verif_obs((long)content.size()); verif_obs(depth);
  return 0;
}

// C14: CanonicalizePath(char*, size_t*, uint64_t*) on every NUL-free byte string of length 1..VERIF_N,
// compared byte for byte with a reference normaliser; idempotence; never longer; exact-size buffer (no access beyond len).
#include "util.h"
#include "verif.h"
#include <stdlib.h>
#include <string.h>
#include <string>
#ifndef VERIF_N
#define VERIF_N 5
#endif

// reference: split on '/', drop empty and ".", resolve ".." against a preceding real component,
// keep a leading '/', keep ".." that cannot be resolved, nothing left -> "." (or "/" for absolute paths)
static size_t ref_canon(const char* in, size_t n, char* out) {
  bool abs = in[0] == '/';
  size_t cs[VERIF_N + 1], cl[VERIF_N + 1]; int nc = 0; int updirs = 0;
  size_t i = 0;
  while (i <= n) {
    size_t j = i;
    while (j < n && in[j] != '/') j++;
    size_t l = j - i;
    if (l == 0 || (l == 1 && in[i] == '.')) { /* skip */ }
    else if (l == 2 && in[i] == '.' && in[i + 1] == '.') { if (nc > 0) nc--; else updirs++; }
    else { cs[nc] = i; cl[nc] = l; nc++; }
    i = j + 1;
  }
  size_t m = 0; bool first = true;
  if (abs) out[m++] = '/';
  for (int k = 0; k < updirs; k++) { if (!first) out[m++] = '/'; out[m++] = '.'; out[m++] = '.'; first = false; }
  for (int k = 0; k < nc; k++) { if (!first) out[m++] = '/'; for (size_t q = 0; q < cl[k]; q++) out[m++] = in[cs[k] + q]; first = false; }
  if (m == 0) out[m++] = '.';
  return m;
}

extern "C" int harness_main() {
  size_t len = (size_t)verif_nondet("len", 1, VERIF_N);
  char* buf = (char*)malloc(len);            // exactly len bytes: any access at or beyond buf+len is reported by the engine / ASan
  char orig[VERIF_N + 1];
  for (size_t i = 0; i < len; i++) { buf[i] = (char)verif_nondet("byte", 1, 255); orig[i] = buf[i]; }
  char expect[2 * VERIF_N + 4];
  size_t elen = ref_canon(orig, len, expect);

  size_t l1 = len; uint64_t bits = 1;
  CanonicalizePath(buf, &l1, &bits);
  VERIF_ASSERT(l1 <= len, "C14: canonicalisation never lengthens a path");
  VERIF_ASSERT(l1 == elen, "C14: canonical length equals the reference normal form");
  if (l1 == elen) {
    bool same = true;
    for (size_t i = 0; i < l1; i++) same = same && buf[i] == expect[i];
    VERIF_ASSERT(same, "C14: canonical bytes equal the reference normal form");
  }
  VERIF_ASSERT(bits == 0, "C14: slash_bits is 0 on POSIX");
  verif_obs((long)l1);
  for (size_t i = 0; i < l1 && i < len; i++) verif_obs((unsigned char)buf[i]);
  // idempotence with the real function
  if (l1 >= 1 && l1 <= len) {
    char* b2 = (char*)malloc(l1);
    for (size_t i = 0; i < l1; i++) b2[i] = buf[i];
    size_t l2 = l1;
    CanonicalizePath(b2, &l2, &bits);
    VERIF_ASSERT(l2 == l1, "C14: idempotent (length)");
    bool same = l2 == l1;
    for (size_t i = 0; same && i < l1; i++) same = b2[i] == buf[i];
    VERIF_ASSERT(same, "C14: idempotent (bytes)");
    free(b2);
  }
  if (l1 == 1 && buf[0] == '.') verif_reach("resolves-to-dot");
  if (len >= 3 && orig[0] == '.' && orig[1] == '.' && orig[2] == '/') verif_reach("leading-updir");
  if (orig[0] == '/') verif_reach("absolute");
  if (l1 < len) verif_reach("shortened");
  free(buf);
  // std::string overload goes through the same routine
  return 0;
}

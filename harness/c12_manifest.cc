// C12: manifest text means what the manual says.  Real code: Lexer, ManifestParser, State, BindingEnv/EvalString, EdgeEnv.
#include "verif.h"
#include "disk_interface.h"
#include "graph.h"
#include "manifest_parser.h"
#include "state.h"
#include "util.h"
#include <string.h>
#include <string>
#include <vector>
static std::string g_main, g_inc, g_a, g_b;
struct FR : public FileReader {
  Status ReadFile(const std::string& path, std::string* contents, std::string* err) override {
    if (path == "build.ninja") { *contents = g_main; return Okay; }
    if (path == "inc.ninja" || path == "sub/sub.ninja") { *contents = g_inc; return Okay; }
    if (path == "a.ninja") { *contents = g_a; return Okay; }
    if (path == "b.ninja") { *contents = g_b; return Okay; }
    if (path == "dd") { *contents = g_inc; return Okay; }
    if (path == "pre.ninja") { *contents = "x = px\nbuild po: r pi\n"; return Okay; }
    *err = "No such file or directory"; return NotFound;
  }
};
static Edge* edge_for(State* st, const char* out) { Node* n = st->LookupNode(out); return n ? n->in_edge() : NULL; }
static bool input_is(Edge* e, size_t idx, const char* name) { return e && idx < e->inputs_.size() && e->inputs_[idx]->path() == name; }

#if defined(MODE_SCOPING)
// a manifest assembled from optional pieces; the expected command / description of every statement comes from a reference evaluator that
// implements the documented rules: immediate expansion of file- and build-level values, late expansion of rule variables in the build's
// scope, lookup order build -> rule -> file -> including file, include shares the scope, subninja opens a child scope.
extern "C" int harness_main() {
  ir2c_global_ctors();
  bool has_fx = verif_bool("file_x"), has_y = verif_bool("file_y_from_x"), redefine = verif_bool("file_x_redefined"), has_bx = verif_bool("build_x"), has_z = verif_bool("build_z_from_x");
  int inc = verif_choice("include_kind", 3);          // 0 none, 1 include, 2 subninja
  bool has_ix = inc && verif_bool("included_x"); bool has_late = verif_bool("late_x");
  bool file_desc = verif_bool("file_level_description");
  bool pre_sub = verif_bool("earlier_subninja");        // an unrelated subninja before the build statements and the include
  bool crlf = verif_bool("crlf"); bool cont = verif_bool("continuation_in_command");
  const char* nl = crlf ? "\r\n" : "\n";
  std::string m;
  if (has_fx) { m += "x = fx"; m += nl; }
  if (file_desc) { m += "description = fd"; m += nl; }
  m += "rule r"; m += nl;
  if (cont) { m += "  command = c $x $"; m += nl; m += "      $y $in $"; m += nl; m += "    $out $z"; m += nl; }
  else { m += "  command = c $x $y $in $out $z"; m += nl; }
  m += "  description = d $x"; m += nl;
  if (has_y) { m += "y = $x.y"; m += nl; }
  if (redefine) { m += "x = fx2"; m += nl; }
  if (pre_sub) { m += "subninja pre.ninja"; m += nl; }
  m += "build o: r i | imp $"; m += nl; m += "    || oo |@ v"; m += nl;
  if (has_bx) { m += "  x = bx"; m += nl; }
  if (has_z) { m += "  z = $x!"; m += nl; }
  if (inc == 1) { m += "include inc.ninja"; m += nl; }
  if (inc == 2) { m += "subninja sub/sub.ninja"; m += nl; }
  if (has_late) { m += "x = late"; m += nl; }
  m += "build o2: r i2"; m += nl; m += "default o"; m += nl;
  g_main = m;
  g_inc = ""; if (has_ix) { g_inc += "x = ix"; g_inc += nl; } g_inc += "build io: r ii"; g_inc += nl;
  State state; FR fr; std::string err; ManifestParser mp(&state, &fr);
  bool ok = mp.Load("build.ninja", &err);
  VERIF_ASSERT(ok, "C12: a manifest following the documented grammar is accepted");
  if (!ok) return 0;
  // ---- reference evaluation
  std::string x_at_y = has_fx ? "fx" : "";
  std::string y = has_y ? x_at_y + ".y" : "";
  std::string x_at_o = redefine ? "fx2" : (has_fx ? "fx" : "");
  std::string z = has_z ? x_at_o + "!" : "";
  std::string x_final = x_at_o; if (inc == 1 && has_ix) x_final = "ix"; if (has_late) x_final = "late";
  std::string x_o = has_bx ? "bx" : x_final;
  std::string x_io = (inc == 2 && has_ix) ? "ix" : x_final;
  Edge* o = edge_for(&state, "o"); Edge* o2 = edge_for(&state, "o2"); Edge* io = inc ? edge_for(&state, "io") : NULL;
  VERIF_ASSERT(o && o2 && (!inc || io), "C12: every build statement produced its edge");
  if (!o || !o2 || (inc && !io)) return 0;
  VERIF_ASSERT(o->EvaluateCommand() == "c " + x_o + " " + y + " i o " + z, "C12: command of a build with its own bindings follows the documented expansion and lookup order");
  VERIF_ASSERT(o2->EvaluateCommand() == "c " + x_final + " " + y + " i2 o2 ", "C12: command of a build without bindings sees the file-level values");
  if (io) VERIF_ASSERT(io->EvaluateCommand() == "c " + x_io + " " + y + " ii io ", "C12: include shares the including file's scope, subninja opens a child scope that sees the parent");
  if (pre_sub) { Edge* po = edge_for(&state, "po"); VERIF_ASSERT(po && po->EvaluateCommand() == "c px " + y + " pi po ", "C12: a subninja file sees its own binding and the parent's, and leaves the parent's scope alone"); verif_reach("two-nested-files"); }
  // rule-level bindings come before file-level ones
  if (has_bx || has_z) VERIF_ASSERT(o->GetBinding("description") == "d " + x_o, "C12: description of a build with its own bindings comes from the rule");
  else VERIF_ASSERT(o->GetBinding("description") == "d " + x_o, "C12: a rule-level binding takes precedence over a file-level variable of the same name");
  VERIF_ASSERT(o2->GetBinding("description") == "d " + x_final, "C12: a rule-level binding takes precedence over a file-level variable of the same name");
  // kinds of inputs, outputs, validations, defaults
  bool kinds = o->inputs_.size() == 3 && input_is(o, 0, "i") && input_is(o, 1, "imp") && input_is(o, 2, "oo") && o->implicit_deps_ == 1 && o->order_only_deps_ == 1 &&
               o->validations_.size() == 1 && o->validations_[0]->path() == "v" && o->outputs_.size() == 1 && o->implicit_outs_ == 0;
  VERIF_ASSERT(kinds, "C12: explicit, implicit, order-only inputs and validations are told apart (also across a line continuation)");
  VERIF_ASSERT(state.defaults_.size() == 1 && state.defaults_[0]->path() == "o", "C12: default targets are recorded");
  verif_reach(inc == 2 ? "subninja" : inc == 1 ? "include" : "single-file"); if (crlf) verif_reach("crlf"); if (cont) verif_reach("continuation");
  verif_obs((long)state.edges_.size());
  return 0;
}
#elif defined(MODE_SIBLINGS)
// rule names resolve in the scope of the file that uses them: two child files read one after the other (each by include or by subninja); a rule
// declared in a subninja file is local to it, a rule declared in an included file belongs to the includer, the parent's rules are visible in both
extern "C" int harness_main() {
  ir2c_global_ctors();
  bool top_cc = verif_bool("top_declares_cc"), a_cc = verif_bool("first_child_declares_cc"), b_var = verif_bool("second_child_starts_with_a_variable");
  bool a_sub = verif_bool("first_child_is_subninja"), b_sub = verif_bool("second_child_is_subninja"); bool crlf = verif_bool("crlf");
  const char* nl = crlf ? "\r\n" : "\n";
  std::string m; if (top_cc) { m += "rule cc"; m += nl; m += "  command = top-cc $in"; m += nl; }
  m += "rule other"; m += nl; m += "  command = other $in"; m += nl;
  m += (a_sub ? "subninja a.ninja" : "include a.ninja"); m += nl; m += (b_sub ? "subninja b.ninja" : "include b.ninja"); m += nl;
  m += "build t.out: other t.in"; m += nl;
  g_main = m;
  g_a = ""; if (a_cc) { g_a += "rule cc"; g_a += nl; g_a += "  command = a-cc $in"; g_a += nl; } g_a += "build a0.out: other a0.in"; g_a += nl; g_a += "build a.out: cc a.in"; g_a += nl;
  g_b = ""; if (b_var) { g_b += "v = 1"; g_b += nl; } g_b += "build b.out: cc b.in"; g_b += nl;
  State state; FR fr; std::string err; ManifestParser mp(&state, &fr);
  bool ok = mp.Load("build.ninja", &err);
  // reference: which rule does each use of `cc` name?
  bool dup = top_cc && a_cc && !a_sub;                              // an included file redeclaring a rule of its includer
  const char* a_uses = a_cc ? "a-cc" : top_cc ? "top-cc" : NULL;
  const char* b_uses = top_cc ? "top-cc" : (a_cc && !a_sub) ? "a-cc" : NULL;
  if (dup || !a_uses || !b_uses) {
    VERIF_ASSERT(!ok, "C12: a manifest that breaks a documented constraint is rejected");
    VERIF_ASSERT(ok || err.find(".ninja:") != std::string::npos, "C12: the rejection carries a file:line diagnostic");
    verif_reach("rejected"); return 0;
  }
  VERIF_ASSERT(ok, "C12: a manifest following the documented grammar is accepted");
  if (!ok) return 0;
  Edge* a = edge_for(&state, "a.out"); Edge* b = edge_for(&state, "b.out"); Edge* t = edge_for(&state, "t.out");
  VERIF_ASSERT(a && b && t, "C12: every build statement produced its edge");
  if (!a || !b || !t) return 0;
  VERIF_ASSERT(a->EvaluateCommand() == std::string(a_uses) + " a.in", "C12: a rule name resolves in the scope of the file that uses it (first child)");
  VERIF_ASSERT(b->EvaluateCommand() == std::string(b_uses) + " b.in", "C12: a rule name resolves in the scope of the file that uses it (a rule private to one subninja file is not visible in its sibling)");
  VERIF_ASSERT(t->EvaluateCommand() == "other t.in", "C12: the parent's own statements are unaffected by its children");
  verif_reach("siblings"); verif_obs((long)state.edges_.size());
  return 0;
}
#elif defined(MODE_SPELLINGS)
// C14 at the places where a path enters ninja: whichever spelling of dir/gen.h a manifest or dyndep file uses, in whichever position, it is
// the same Node as the canonical spelling, and no Node exists under the other spelling
#include "dyndep.h"
extern "C" int harness_main() {
  ir2c_global_ctors();
  static const char* kSpell[] = { "dir/gen.h", "./dir/gen.h", "dir//gen.h", "dir/sub/../gen.h", "dir/./gen.h", "x/../dir/gen.h" };
  int sp = verif_choice("spelling", 6); int kind = verif_choice("position", 9); bool crlf = verif_bool("crlf");
  std::string P = kSpell[sp];
  std::string m = "rule r\n  command = c $in $out\n";
  m += kind == 7 ? "build " + P + ": r src.in\n" : kind == 8 ? "build other.h | " + P + ": r src.in\n" : "build dir/gen.h: r src.in\n";
  m += "build out: r e.in " + (kind == 0 ? P : std::string("e2.in")) + " | i.in " + (kind == 1 ? P : std::string("i2.in")) + " dd || o.in " + (kind == 2 ? P : std::string("o2.in")) + " |@ v.in " + (kind == 3 ? P : std::string("v2.in")) + "\n  dyndep = dd\n";
  if (kind == 4) m += "default " + P + "\n";
  if (crlf) { std::string t; for (size_t i = 0; i < m.size(); i++) { if (m[i] == '\n') t += '\r'; t += m[i]; } m = t; }
  g_main = m;
  // the dyndep file of 'out' (kinds 5, 6: the spelling is used there)
  g_inc = "ninja_dyndep_version = 1\nbuild out" + (kind == 6 ? " | x.imp " : std::string("")) + ": dyndep" + (kind == 5 ? " | " + P : std::string("")) + "\n";
  State state; FR fr; std::string err; ManifestParser mp(&state, &fr);
  bool ok = mp.Load("build.ninja", &err);
  VERIF_ASSERT(ok, "C12: a manifest following the documented grammar is accepted");
  if (!ok) return 0;
  Node* canon = state.LookupNode("dir/gen.h"); Edge* out = edge_for(&state, "out");
  VERIF_ASSERT(out != NULL, "C12: every build statement produced its edge");
  if (kind == 5 || kind == 6) { struct DR : public DiskInterface { FR fr; TimeStamp Stat(const std::string&, std::string*) const override { return 1; } bool WriteFile(const std::string&, const std::string&, bool) override { return true; } bool MakeDir(const std::string&) override { return true; }
      Status ReadFile(const std::string& p, std::string* c, std::string* e) override { return fr.ReadFile(p, c, e); } int RemoveFile(const std::string&) override { return 0; } } disk;
    DyndepLoader loader(&state, &disk); Node* dd = state.LookupNode("dd"); VERIF_ASSERT(dd && loader.LoadDyndeps(dd, &err), "C11: a well-formed dyndep file is accepted"); canon = state.LookupNode("dir/gen.h"); }
  VERIF_ASSERT(canon != NULL && canon->in_edge() != NULL, "C14: the file has one Node under its canonical name, produced by its statement");
  if (sp != 0) VERIF_ASSERT(state.LookupNode(P) == NULL, "C14: no second Node exists under another spelling of the same path");
  if (!canon || !out) return 0;
  bool used = false; const char* what = "";
  if (kind == 0) { used = out->inputs_.size() > 1 && out->inputs_[1] == canon && !out->is_implicit(1) && !out->is_order_only(1); }
  else if (kind == 1) { used = false; for (size_t i = 0; i < out->inputs_.size(); i++) if (out->inputs_[i] == canon && out->is_implicit(i)) used = true; }
  else if (kind == 2) { used = false; for (size_t i = 0; i < out->inputs_.size(); i++) if (out->inputs_[i] == canon && out->is_order_only(i)) used = true; }
  else if (kind == 3) { used = false; for (size_t i = 0; i < out->validations_.size(); i++) if (out->validations_[i] == canon) used = true; }
  else if (kind == 4) { used = state.defaults_.size() == 1 && state.defaults_[0] == canon; }
  else if (kind == 5) { used = false; for (size_t i = 0; i < out->inputs_.size(); i++) if (out->inputs_[i] == canon && out->is_implicit(i)) used = true; }
  else if (kind == 6) { used = true; }
  else if (kind == 7) { used = canon->in_edge()->outputs_.size() == 1; }
  else { used = canon->in_edge()->outputs_.size() == 2 && canon->in_edge()->implicit_outs_ == 1; }
  (void)what;
  VERIF_ASSERT(used, "C14: a path names the same file whatever its spelling and whatever position of a manifest or dyndep file it is written in");
  bool consumer_ok = true; for (size_t i = 0; i < canon->out_edges().size(); i++) consumer_ok = consumer_ok && canon->out_edges()[i] == out;
  VERIF_ASSERT(consumer_ok, "C14: the consumers of the file are attached to its one Node");
  verif_reach(sp ? "other-spelling" : "canonical-spelling"); if (kind >= 5 && kind <= 6) verif_reach("dyndep-file");
  verif_obs((long)state.paths_.size());
  return 0;
}
#elif defined(MODE_KINDS)
// statements whose input lists mix the kinds, multiple and implicit outputs, pools, $-escapes and paths needing canonicalisation, and the legacy self-referencing phony form
extern "C" int harness_main() {
  ir2c_global_ctors();
  int form = verif_choice("phony_form", 6);
  static const char* kPhony[] = { "build a: phony a\n", "build a: phony b a\n", "build a: phony b | a\n", "build a: phony b || a\n", "build a: phony b | c a || d\n", "build a: phony a | c || a d\n" };
  static const int kExpect[][3] = { {0, 0, 0}, {1, 0, 0}, {1, 1, 0}, {1, 0, 0}, {1, 2, 1}, {1, 1, 2} };     // explicit, implicit, order-only; the self references are dropped only in the form old CMake wrote (no implicit inputs)
  static const bool kFiltered[] = { true, true, false, true, false, false };
  bool crlf = verif_bool("crlf");
  std::string m = "pool p\n  depth = 3\nrule r\n  command = c $in > $out\n  pool = p\n";
  m += kPhony[form];
  m += "build out$ 1 ./x/../o2 | dir//imp.o: r in$:1 foo/./in2 | i$$3 || $\n   oo1 oo2 |@ v1\n";
  if (crlf) { std::string t; for (size_t i = 0; i < m.size(); i++) { if (m[i] == '\n') t += '\r'; t += m[i]; } m = t; }
  g_main = m;
  State state; FR fr; std::string err; ManifestParser mp(&state, &fr);
  bool ok = mp.Load("build.ninja", &err);
  VERIF_ASSERT(ok, "C12: a manifest following the documented grammar is accepted");
  if (!ok) return 0;
  Edge* a = edge_for(&state, "a");
  VERIF_ASSERT(a != NULL, "C12: the phony statement produced its edge");
  if (a) {
    int expl = (int)a->inputs_.size() - a->implicit_deps_ - a->order_only_deps_;
    bool no_self = true; for (size_t i = 0; i < a->inputs_.size(); i++) no_self = no_self && a->inputs_[i]->path() != "a";
    if (kFiltered[form]) VERIF_ASSERT(no_self, "C12: the legacy self-referencing phony form has its self references dropped");
    VERIF_ASSERT(expl == kExpect[form][0] && a->implicit_deps_ == kExpect[form][1] && a->order_only_deps_ == kExpect[form][2], "C12: the remaining inputs of a self-referencing phony statement keep their kinds");
  }
  Edge* e = edge_for(&state, "out 1");
  bool shape = e && e->outputs_.size() == 3 && e->implicit_outs_ == 1 && e->outputs_[1]->path() == "o2" && e->outputs_[2]->path() == "dir/imp.o" &&
               e->inputs_.size() == 5 && input_is(e, 0, "in:1") && input_is(e, 1, "foo/in2") && input_is(e, 2, "i$3") && input_is(e, 3, "oo1") && input_is(e, 4, "oo2") &&
               e->implicit_deps_ == 1 && e->order_only_deps_ == 2 && e->validations_.size() == 1 && e->pool() && e->pool()->name() == "p" && e->pool()->depth() == 3;
  VERIF_ASSERT(shape, "C12: escapes, canonicalised paths, output/input kinds and the pool of a statement are as documented");
  if (e) VERIF_ASSERT(e->EvaluateCommand() == "c 'in:1' foo/in2 > 'out 1' o2", "C12: $in and $out list exactly the explicit inputs and outputs");
  verif_reach("kinds"); verif_obs((long)state.edges_.size());
  return 0;
}
#elif defined(MODE_ATTRS)
// the per-statement attributes ninja itself reads (dyndep, depfile, deps, restat, generator, description, pool) follow the same lookup order as
// every variable: build block, rule, file, including file.  Each attribute is bound in exactly one of those places (no shadowing here: that is
// what MODE_SCOPING is for); the statement has or has not an indented block of its own.
extern "C" int harness_main() {
  ir2c_global_ctors();
  static const char* kVar[] = { "dyndep", "depfile", "deps", "restat", "generator", "description", "pool" };
  static const char* kVal[] = { "dd", "o.d", "gcc", "1", "1", "Desc", "p" };
  int v = verif_choice("attribute", 7);
  int scope = verif_choice("bound_in", v == 6 ? 2 : 4);       // 0 build block, 1 rule, 2 file, 3 the file that subninja-includes the statement's file ('pool' is a keyword at file level)
  bool own_block = verif_bool("statement_has_a_block"), crlf = verif_bool("crlf"), dd_is_input = verif_bool("dyndep_file_is_an_input");
  std::string bind = std::string(kVar[v]) + " = " + kVal[v] + "\n";
  std::string rule = "pool p\n  depth = 2\nrule r\n  command = c\n" + (scope == 1 ? "  " + bind : std::string());
  std::string stmt = std::string("build o: r i") + (dd_is_input ? " || dd" : "") + "\n" + (scope == 0 ? "  " + bind : std::string()) + (own_block ? "  unrelated = 1\n" : "");
  std::string m, child;
  if (scope == 3) { m = bind + "subninja sub/sub.ninja\n"; child = rule + stmt; }
  else m = (scope == 2 ? bind : std::string()) + rule + stmt;
  if (crlf) { std::string t; for (size_t i = 0; i < m.size(); i++) { if (m[i] == '\n') t += '\r'; t += m[i]; } m = t; t.clear(); for (size_t i = 0; i < child.size(); i++) { if (child[i] == '\n') t += '\r'; t += child[i]; } child = t; }
  g_main = m; g_inc = child;
  State state; FR fr; std::string err; ManifestParser mp(&state, &fr);
  bool ok = mp.Load("build.ninja", &err);
  if (v == 0 && !dd_is_input) {
    VERIF_ASSERT(!ok && err.find("dyndep 'dd' is not an input") != std::string::npos, "C12: a dyndep binding that does not name an input of the statement is rejected, wherever it is bound");
    verif_reach("rejected"); return 0;
  }
  VERIF_ASSERT(ok, "C12: a manifest following the documented grammar is accepted");
  if (!ok) return 0;
  Edge* e = edge_for(&state, "o");
  VERIF_ASSERT(e != NULL, "C12: the statement produced its edge");
  if (!e) return 0;
  bool got = false;
  switch (v) {
    case 0: got = e->dyndep_ && e->dyndep_->path() == "dd" && e->dyndep_->dyndep_pending(); break;
    case 1: got = e->GetUnescapedDepfile() == "o.d"; break;
    case 2: got = e->GetBinding("deps") == "gcc"; break;
    case 3: got = e->GetBindingBool("restat"); break;
    case 4: got = e->GetBindingBool("generator"); break;
    case 5: got = e->GetBinding("description") == "Desc"; break;
    case 6: got = e->pool() && e->pool()->name() == "p" && e->pool()->depth() == 2; break;
  }
  VERIF_ASSERT(got, "C12: a statement attribute (dyndep, depfile, deps, restat, generator, description, pool) is looked up build block, rule, file, including file");
  if (v != 0) VERIF_ASSERT(e->dyndep_ == NULL, "C12: a statement without a dyndep binding has none");
  if (v != 6) VERIF_ASSERT(e->pool() && e->pool()->name().empty(), "C12: a statement without a pool binding is in the default pool");
  verif_reach(scope == 0 ? "build-block" : scope == 1 ? "rule" : scope == 2 ? "file" : "parent-file"); verif_obs(v * 10 + scope);
  return 0;
}
#else
// manifests that break a documented constraint are rejected with a file:line diagnostic; the valid neighbours are accepted
extern "C" int harness_main() {
  ir2c_global_ctors();
  static const char* kBad[] = {
    "rule r\n  command = c\nbuild o: r i\nbuild o: r j\n",                      // duplicate output
    "build o: nosuch i\n",                                                      // unknown rule
    "rule r\n  command = c\nbuild o: r i\n  pool = nosuch\n",                  // unknown pool
    "rule r\n  description = d\nbuild o: r i\n",                                // rule without command
    "rule r\n  command = c\n  mine = 1\n",                                      // non-reserved rule variable
    "rule r\n  command = c $%\n",                                               // bad $-escape
    "rule r\n\tcommand = c\n",                                                  // tab indentation
    "rule r\n  command = c\nbuild o: r i\n  dyndep = dd\n",                     // dyndep that is not an input
    "rule r\n  command = c\nrule r\n  command = d\n",                           // duplicate rule
    "pool p\n  depth = -1\n",                                                   // invalid pool depth
    "rule r\n  command = c\nbuild o: r i\ndefault nosuch\n",                    // unknown default target
    "rule r\n  command = c\nbuild : r i\n",                                     // no output
    "x = 1\nbuild o r i\n",                                                     // missing colon
    "rule r\n  command = c\n  rspfile = f\n",                                   // rspfile without rspfile_content
    "include nosuch.ninja\n",                                                   // missing include file
    "rule r\n  command = c\nbuild o | o: r i\n",                                // output named twice in one statement
  };
  static const char* kGood[] = { "rule r\n  command = c\nbuild o: r i\nbuild o2: r j\n", "rule r\n  command = c $$ $: $ x\n", "rule r\n  command = c\nbuild o: r i || dd\n  dyndep = dd\n", "pool p\n  depth = 0\n",
                                 "rule r\n  command = c\n  rspfile = f\n  rspfile_content = $in\n", "rule r\n  command = c\nbuild o: r i\ndefault o\n" };
  bool bad = verif_bool("ill_formed");
  int k = bad ? verif_choice("which_bad", 16) : verif_choice("which_good", 6);
  bool crlf = verif_bool("crlf");
  std::string m = bad ? kBad[k] : kGood[k];
  if (crlf && !(bad && k == 6)) { std::string t; for (size_t i = 0; i < m.size(); i++) { if (m[i] == '\n') t += '\r'; t += m[i]; } m = t; }
  g_main = m;
  State state; FR fr; std::string err; ManifestParser mp(&state, &fr);
  bool ok = mp.Load("build.ninja", &err);
  if (bad) {
    VERIF_ASSERT(!ok, "C12: a manifest that breaks a documented constraint is rejected");
    VERIF_ASSERT(ok || (err.compare(0, 12, "build.ninja:") == 0 && err.size() > 14 && err[12] >= '1' && err[12] <= '9'), "C12: the rejection carries a file:line diagnostic");
    verif_reach("rejected");
  } else { VERIF_ASSERT(ok, "C12: a manifest following the documented grammar is accepted"); verif_reach("accepted"); }
  verif_obs(ok);
  return 0;
}
#endif

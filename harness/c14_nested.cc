// C14 (nesting and backing out): D real components with distinct names (the first may start with a dot), then U ".." components (U up to D + 2, so that every
// depth is popped back to, and past, the start), a noise component (".", empty) at a symbolic place, an optional tail name.  Compared
// with the vector-based reference normaliser; idempotence with the real function.
#include "util.h"
#include "verif.h"
#include <stdlib.h>
#include <string>
#include <vector>
#ifndef VERIF_D
#define VERIF_D 16
#endif
static std::string ref_canon(const std::string& in) {
  bool abs = !in.empty() && in[0] == '/'; std::vector<std::string> comps; int updirs = 0; size_t i = 0, n = in.size();
  while (i <= n) { size_t j = i; while (j < n && in[j] != '/') j++; std::string c = in.substr(i, j - i);
    if (c.empty() || c == ".") {} else if (c == "..") { if (!comps.empty()) comps.pop_back(); else updirs++; } else comps.push_back(c); i = j + 1; }
  std::string out; bool first = true; if (abs) out += "/";
  for (int k = 0; k < updirs; k++) { if (!first) out += "/"; out += ".."; first = false; }
  for (size_t k = 0; k < comps.size(); k++) { if (!first) out += "/"; out += comps[k]; first = false; }
  if (out.empty()) out = ".";
  return out;
}
extern "C" int harness_main() {
  int depth = (int)verif_concretize(verif_nondet("nested_components", 0, VERIF_D));
  int ups = (int)verif_concretize(verif_nondet("updir_components", 0, depth + 2));
  int noise_kind = (int)verif_concretize(verif_choice("noise", 3));                                  // none, ".", "" (a doubled slash)
  int noise_where = noise_kind ? (int)verif_concretize(verif_choice("noise_place", 4)) : 0;           // at the start, inside the names, between the names and the dots, at the end
  int noise_at = noise_where == 0 ? 0 : noise_where == 1 ? depth / 2 : noise_where == 2 ? depth : depth + ups;
  bool tail = verif_concretize(verif_bool("tail_name"));
  std::vector<std::string> comps;
  // distinct names, so that backing out to the wrong component shows; the first one starts with a symbolic byte
  for (int i = 0; i < depth; i++) {
    std::string name(1, (char)('a' + i % 26)); if (i >= 26) name += "x";
    if (i == 0 && verif_concretize(verif_bool("first_name_starts_with_dot"))) name = "." + name;
    comps.push_back(name); }
  for (int i = 0; i < ups; i++) comps.push_back("..");
  if (noise_kind) comps.insert(comps.begin() + noise_at, noise_kind == 1 ? "." : "");
  if (tail) comps.push_back("f");
  std::string path; if (verif_concretize(verif_bool("absolute"))) path = "/";
  for (size_t i = 0; i < comps.size(); i++) { if (i) path += "/"; path += comps[i]; }
  if (path.empty()) path = ".";
  std::string expect = ref_canon(path);
  std::string got = path; uint64_t bits;
  CanonicalizePath(&got, &bits);
  VERIF_ASSERT(got.size() <= path.size(), "C14: canonicalisation never lengthens a path");
  VERIF_ASSERT(got == expect, "C14: nested components followed by '..' components canonicalise to the reference normal form");
  std::string again = got; CanonicalizePath(&again, &bits);
  VERIF_ASSERT(again == got, "C14: idempotent");
  verif_reach(ups > depth ? "backed-out-past-start" : ups == depth ? "backed-out-to-start" : "partly-backed-out");
  if (depth >= 9 && ups >= 9) verif_reach("nine-levels");
  verif_obs((long)got.size());
  return 0;
}

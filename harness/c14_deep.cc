// C14 (long paths): hundreds of components.  ("d/" x M) followed by a short tail of special components, M from a menu around the
// powers of two where a narrow counter would wrap; compared with the same reference normaliser as c14_canon.cc (vector based).
#include "util.h"
#include "verif.h"
#include <stdlib.h>
#include <string>
#include <vector>
static std::string ref_canon(const std::string& in) {
  bool abs = !in.empty() && in[0] == '/'; std::vector<std::string> comps; int updirs = 0; size_t i = 0, n = in.size();
  while (i <= n) { size_t j = i; while (j < n && in[j] != '/') j++; std::string c = in.substr(i, j - i);
    if (c.empty() || c == ".") {} else if (c == "..") { if (!comps.empty()) comps.pop_back(); else updirs++; } else comps.push_back(c); i = j + 1; }
  std::string out; bool first = true; if (abs) out += "/";
  for (int k = 0; k < updirs; k++) { if (!first) out += "/"; out += ".."; first = false; }
  for (size_t k = 0; k < comps.size(); k++) { if (!first) out += "/"; out += comps[k]; first = false; }
  if (out.empty()) out = ".";
  return out;
}
extern "C" int harness_main() {
  static const int kDepth[] = { 0, 1, 127, 128, 254, 255, 256, 257, 511, 512, 513 };
  int depth = kDepth[verif_concretize(verif_nondet("depth_choice", 0, VERIF_DEPTHS - 1))];
  static const char* kComp[] = { "..", ".", "f", "" };
  std::string path; if (verif_bool("absolute")) path = "/";
  for (int i = 0; i < depth; i++) path += "d/";
  int ntail = (int)verif_concretize(verif_nondet("tail_components", 1, 3));
  for (int i = 0; i < ntail; i++) { if (i) path += "/"; path += kComp[verif_concretize(verif_nondet("tail_component", 0, 3))]; }
  if (path.empty()) path = "f";
  std::string expect = ref_canon(path);
  std::string got = path; uint64_t bits;
  CanonicalizePath(&got, &bits);
  VERIF_ASSERT(got == expect, "C14: a long path canonicalises to the reference normal form");
  std::string again = got; CanonicalizePath(&again, &bits);
  VERIF_ASSERT(again == got, "C14: idempotent on long paths");
  verif_reach(depth >= 256 ? "deep" : "shallow");
  verif_obs((long)got.size());
  return 0;
}

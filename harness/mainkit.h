// mainkit.h — the same simulated world as kit.h, but entered through ninja.cc: real_main() with an argv, i.e. the real flag parsing,
// NinjaMain (manifest load, EnsureBuildDirExists, OpenBuildLog/OpenDepsLog, the RebuildManifest loop, RunBuild, every -t tool) and the
// real StatusPrinter.  ninja.cc is included textually and unchanged; only the *type* of NinjaMain::disk_interface_ is swapped for the
// kit's SymDisk (the macro below), and CommandRunner::factory (the existing cut point) hands out the kit's SymRunner.
#ifndef VERIF_MAINKIT_H_
#define VERIF_MAINKIT_H_
#include "kit.h"
struct VerifDisk : public SymDisk { void AllowStatCache(bool) {} };
#define RealDiskInterface VerifDisk
#define main ninja_cc_main_unused
#include VERIF_NINJA_CC
#undef main
#undef RealDiskInterface

#ifdef REAL_RUNNER
#include "osmodel.h"       // the real RealCommandRunner / SubprocessSet / PosixJobserverClient over a modelled operating system
#else
extern CommandRunner* (*verif_runner_factory)(const BuildConfig&, Jobserver::Client*);
#endif
static RunnerOpts g_runner_opts;
#ifndef REAL_RUNNER
static CommandRunner* make_sym_runner(const BuildConfig& c, Jobserver::Client*) {
  // the manifest may have been regenerated and re-read since the invocation began: the runner models commands of the manifest now in effect
  { State st; SymDisk d; std::string err; ManifestParser p(&st, &d); if (p.Load("build.ninja", &err)) build_reference(&st); }
  SymRunner* r = new SymRunner; r->opt = g_runner_opts; r->opt.parallelism = c.parallelism; r->opt.failures_allowed = c.failures_allowed; r->opt.tokens = NULL; r->opt.builder = NULL; r->opt.check_idle = false;
  return r;
}
#endif
struct MainArgs { int argc; char** argv; };
static void main_trampoline(void* p) { MainArgs* a = (MainArgs*)p; real_main(a->argc, a->argv); }
struct MainRun { int rc; std::string out, err; RunnerSink sink; };
// one ninja process: argv as the user types it (without argv[0])
static MainRun run_ninja(const std::vector<std::string>& args) {
  MainRun m;
  // a new process: process-wide state starts out fresh
  State::kDefaultPool.current_use_ = 0; State::kDefaultPool.delayed_.clear();
  State::kConsolePool.current_use_ = 0; State::kConsolePool.delayed_.clear();
  optind = 0;
  RunnerSink sink; g_sink = &sink;
#ifndef REAL_RUNNER
  verif_runner_factory = make_sym_runner;
#endif
  std::vector<std::string> a; a.push_back("ninja");
  // always an explicit -j: without it ninja asks the operating system (cgroup files, sched_getaffinity), which is outside the encoding
  { bool has_j = false; for (size_t i = 0; i < args.size(); i++) has_j = has_j || args[i] == "-j" || args[i] == "--verif-no-j"; if (!has_j) { a.push_back("-j"); a.push_back("2"); } }
  for (size_t i = 0; i < args.size(); i++) if (args[i] != "--verif-no-j") a.push_back(args[i]);
  std::vector<char*> argv; for (size_t i = 0; i < a.size(); i++) argv.push_back(&a[i][0]); argv.push_back(NULL);
  MainArgs ma; ma.argc = (int)a.size(); ma.argv = &argv[0];
  verif_stdout_capture();
  m.rc = (int)verif_call_catching_exit(main_trampoline, &ma);
  static char buf[32768]; long n = verif_stdout_copy(buf, sizeof buf); m.out.assign(buf, (size_t)n);
  n = verif_stderr_copy(buf, sizeof buf); m.err.assign(buf, (size_t)n);
  m.sink = sink; g_sink = NULL;
  return m;
}
static std::string num(long v) { char b[32]; snprintf(b, sizeof b, "%ld", v); return b; }
static std::string line_after(const std::string& text, const std::string& key) {
  size_t p = text.find(key); if (p == std::string::npos) return ""; p += key.size(); size_t e = text.find('\n', p); return text.substr(p, e == std::string::npos ? std::string::npos : e - p);
}
#ifdef VIA_MAIN
static InvocationResult invoke_main(const InvocationOpts& o) {
  InvocationResult res;
  { State st; SymDisk d; std::string err; ManifestParser p(&st, &d); if (p.Load("build.ninja", &err)) build_reference(&st); }   // as invoke(): the declared-input view of the manifest this invocation starts from
  g_runner_opts = o.run;
  std::vector<std::string> args;
#ifdef REAL_RUNNER
  os_begin(o.run, o.token_pool);
  if (o.token_pool >= 0) { setenv("MAKEFLAGS", (std::string(" -j --jobserver-auth=fifo:") + kFifoPath).c_str(), 1); args.push_back("--verif-no-j"); }     // a jobserver client: no -j on the command line
  else { unsetenv("MAKEFLAGS"); args.push_back("-j"); args.push_back(num(o.run.parallelism)); }
#else
  args.push_back("-j"); args.push_back(num(o.run.parallelism));
#endif
#ifdef LOAD_LIMIT
  args.push_back("-l"); args.push_back(num(LOAD_LIMIT));
#endif
  args.push_back("-k"); args.push_back(num(o.failures_allowed >= 1000000 ? 0 : o.failures_allowed));
  if (o.dry_run) args.push_back("-n");
  if (o.status_option) { args.push_back("--status"); args.push_back(o.status_option); }
  args.insert(args.end(), o.targets.begin(), o.targets.end());
  MainRun m = run_ninja(args);
#ifdef REAL_RUNNER
  res.tokens_outstanding = g_os->fifo_taken - g_os->fifo_returned;
  os_end();
#endif
  res.rc = m.rc; res.started = m.sink.started; res.finished_ok = m.sink.finished_ok; res.failed = m.sink.failed; res.exit_codes = m.sink.exit_codes; res.events = m.sink.events;
  res.max_running = m.sink.max_running; res.interrupted = m.sink.interrupted;
  bool stopped = m.out.find("ninja: build stopped: ") != std::string::npos;
  std::string e1 = line_after(m.err, "ninja: error: ");
  res.parsed = !(m.rc != 0 && (e1.compare(0, 12, "build.ninja:") == 0 || e1.compare(0, 8, "loading ") == 0) && e1.find(" log") == std::string::npos);
  res.loaded = !(m.rc != 0 && (e1.compare(0, 18, "loading build log ") == 0 || e1.compare(0, 17, "loading deps log ") == 0 || e1.compare(0, 8, "opening ") == 0));
  VERIF_ASSERT(res.loaded, "C07/C08/C09: both logs load and open at the start of an invocation");
  res.added = res.parsed && res.loaded && !(m.rc != 0 && !stopped && !e1.empty());
  if (!res.added) res.err = e1;
  if (stopped) { std::string l = line_after(m.out, "ninja: build stopped: "); if (!l.empty() && l[l.size() - 1] == '.') l.resize(l.size() - 1); res.err = l; }
  res.up_to_date = m.out.find("ninja: no work to do.") != std::string::npos;
  res.stuck = res.err == "stuck [this is a bug]";
  // what the status printer announced, by command text (used for the dry-run listing)
  for (size_t i = 0; i < g_ref.size(); i++) { if (g_ref[i].phony) continue; std::string c = g_ref[i].command.substr(0, g_ref[i].command.find(";rspfile="));
    if (m.out.find("] " + c + "\n") != std::string::npos) res.status_started_edges.push_back(g_ref[i].ordinal); }
  res.status_started = res.status_finished = (int)res.status_started_edges.size();
  return res;
}
#endif
#endif

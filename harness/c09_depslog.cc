// C09: the deps log survives torn writes, restarts, damage after a valid prefix, and compaction.
// Real code: DepsLog::{RecordDeps,RecordId,OpenForWrite,Load,GetDeps,Recompact,IsDepsEntryLiveFor,Close}, Truncate, ReplaceContent,
// ManifestParser/State for the statements that decide which entries are live.  The file lives on the engine's VFS / the real FS natively.
#include "deps_log.h"
#include "disk_interface.h"
#include "graph.h"
#include "eval_env.h"
#include "state.h"
#include "util.h"
#include "verif.h"
#include <stdio.h>
#include <string.h>
#include <unistd.h>
#include <string>
#include <vector>
#ifndef VERIF_SEQS
#define VERIF_SEQS 3
#endif
#ifndef VERIF_MAXREC
#define VERIF_MAXREC 4
#endif
static const char* kLog = ".ninja_deps";
// statements deciding which entries are live: o1, out4 use deps = gcc through their rule, out through a statement-level binding; 'dead' does not (built through the State API: the parser is not under test here)
static State* new_state() {
  State* st = new State; std::string err;
  Rule* cc = new Rule("cc"); EvalString c1; c1.AddText("cc"); cc->AddBinding("command", c1); EvalString d1; d1.AddText("gcc"); cc->AddBinding("deps", d1);
  Rule* plain = new Rule("plain"); EvalString c2; c2.AddText("p"); plain->AddBinding("command", c2);
  st->bindings_.AddRule(std::unique_ptr<const Rule>(cc)); st->bindings_.AddRule(std::unique_ptr<const Rule>(plain));
  const char* outs[] = { "o1", "out", "out4", "dead" };
  // 'out' gets deps = gcc from a binding of its own build statement (its rule declares none): where the variable is bound must not matter for liveness
  Rule* cc2 = new Rule("cc2"); EvalString c3; c3.AddText("cc2"); cc2->AddBinding("command", c3); st->bindings_.AddRule(std::unique_ptr<const Rule>(cc2));
  for (int i = 0; i < 4; i++) { Edge* e = st->AddEdge(i == 1 ? cc2 : i < 3 ? cc : plain); st->AddIn(e, "s", 0); st->AddOut(e, outs[i], 0, &err);
    if (i == 1) { BindingEnv* env = new BindingEnv(&st->bindings_); env->AddBinding("deps", "gcc"); e->env_ = env; } }
  return st;
}
// names cover every padding case: lengths 1..5
static const char* kOuts[] = { "o1", "out", "out4", "dead" };
static const char* kDeps[] = { "a", "b2", "hh.hx", "s" };
struct Rec { int out; long mtime; int deps_mask; };            // one RecordDeps operation
// bit 16 of a mask: the first dependency is listed a second time at the end (a depfile naming one file under two spellings that canonicalise to the same node)
static std::vector<Node*> dep_nodes(State* st, int mask) { std::vector<Node*> v; for (int i = 0; i < 4; i++) if (mask & (1 << i)) v.push_back(st->GetNode(kDeps[i], 0)); if ((mask & 16) && !v.empty()) v.push_back(v[0]); return v; }
static Rec sym_rec(const char* tag) {
  Rec r; r.out = verif_choice("out", 4); r.mtime = verif_nondet("mtime", 1, 3); r.deps_mask = (int)verif_nondet("deps_mask", 0, 15);
#ifdef SMALL_MENU
  VERIF_ASSUME(r.deps_mask == 0 || r.deps_mask == 1 || r.deps_mask == 6 || r.deps_mask == 12);
#endif
  return r;
}
// expectation model: what GetDeps must return per output (-1 mtime = no entry)
struct Model { long mtime[4]; int mask[4]; Model() { for (int i = 0; i < 4; i++) { mtime[i] = -1; mask[i] = 0; } } void apply(const Rec& r) { mtime[r.out] = r.mtime; mask[r.out] = r.deps_mask; } };
static bool g_skip_dead = false;   // the entry of the output without a deps statement may or may not have been dropped (a recompaction was cut short)
static int g_only = -1;      // when >= 0, only this output is compared (the valid-looking foreign record may have changed the others)
static void check_state(DepsLog* log, State* st, const Model& m, const char* msg) {
  bool ok = true;
  for (int o = 0; o < 4; o++) {
    if (g_only >= 0 && o != g_only) continue;
    if (g_skip_dead && o == 3) continue;
    Node* n = st->LookupNode(kOuts[o]);
    DepsLog::Deps* d = n ? log->GetDeps(n) : NULL;
    if (m.mtime[o] < 0) { ok = ok && d == NULL; continue; }
    if (!d) { ok = false; continue; }
    std::vector<Node*> want = dep_nodes(st, m.mask[o]);
    ok = ok && d->mtime == m.mtime[o] && d->node_count == (int)want.size();
    for (int k = 0; ok && k < d->node_count; k++) ok = d->nodes[k] == want[k];
  }
  VERIF_ASSERT(ok, msg);
}
// record boundaries of a well-formed log: offsets at which a record ends (walks the size words of the bytes on disk)
static std::vector<long> boundaries(std::vector<int>* is_deps_at) {
  std::vector<long> b; FILE* f = fopen(kLog, "rb"); if (!f) return b;
  fseek(f, 16, SEEK_SET); long off = 16; b.push_back(off); is_deps_at->push_back(0);
  for (;;) { unsigned size; if (fread(&size, 4, 1, f) < 1) break; bool isd = size >> 31; size &= 0x7fffffff; fseek(f, size, SEEK_CUR); off += 4 + size; b.push_back(off); is_deps_at->push_back(isd); }
  fclose(f); return b;
}

extern "C" int harness_main() {
  ir2c_global_ctors();
  std::string err;
  // ---- session 1: write NREC records
  std::vector<Rec> recs; std::vector<long> rec_end;
  {
    State* st = new_state(); DepsLog log;
    VERIF_ASSERT(log.OpenForWrite(kLog, &err), "C09: open for write");
#ifdef CONCRETE_SEQ
    // a representative first session: every padding case (name lengths 1..5), an overwritten entry, an empty list, a dead output
    static const Rec kSeq[][4] = { { {0, 1, 1 | 4}, {1, 2, 2}, {0, 3, 8}, {3, 1, 1} },
                                   { {2, 1, 0}, {1, 2, 4 | 8}, {2, 2, 2}, {1, 2, 4 | 8} },
                                   { {3, 1, 15}, {0, 2, 1}, {1, 1, 1}, {2, 3, 1 | 2} },
                                   // the same output recorded again with the same dependencies and an OLDER mtime (the output was restored from a cache), then once more unchanged
                                   { {1, 5, 1 | 2}, {1, 3, 1 | 2}, {2, 0, 4}, {1, 3, 1 | 2} },
                                   // dependency lists that name the same (so far unknown) file twice
                                   { {0, 1, 1 | 16}, {1, 2, 4 | 8 | 16}, {2, 1, 2}, {1, 3, 8 | 16} } };      // (and a record with mtime 0: a command that succeeded without creating its output)
#ifndef SEQ_BASE
#define SEQ_BASE 0
#endif
    int seq = SEQ_BASE + verif_choice("sequence", VERIF_SEQS);
    int n = (int)verif_nondet("records", 1, VERIF_MAXREC);
#else
    int n = (int)verif_nondet("records", 1, VERIF_RECORDS);
#endif
    for (int i = 0; i < n; i++) {
#ifdef CONCRETE_SEQ
      Rec r = kSeq[seq][i];
#else
      Rec r = sym_rec("rec");
#endif
      std::vector<Node*> d = dep_nodes(st, r.deps_mask);
      VERIF_ASSERT(log.RecordDeps(st->GetNode(kOuts[r.out], 0), r.mtime, d), "C09: RecordDeps succeeds");
      recs.push_back(r); rec_end.push_back((long)verif_file_size(kLog));
    }
    log.Close();
  }
  long full = (long)verif_file_size(kLog);
  VERIF_ASSERT(full == rec_end.back(), "C09: Close adds nothing");
  // ---- damage
  Model m; long keep;     // keep = size the file must have after recovery
#if defined(DAMAGE_TEAR)
  long cut = verif_nondet("cut", 0, full);
  VERIF_ASSERT(truncate(kLog, cut) == 0, "truncate");
  std::vector<int> isd; std::vector<long> b;
  { // boundaries of the undamaged file were computed before the cut
  }
  keep = -1;
  for (size_t i = 0; i < recs.size(); i++) if (rec_end[i] <= cut) m.apply(recs[i]);
  verif_reach(cut == full ? "tear-none" : "tear-some");
#elif defined(DAMAGE_TAIL)
  // cut at a record boundary, then append up to VERIF_TAIL arbitrary bytes
  std::vector<int> isd; std::vector<long> b = boundaries(&isd);
  int bi = verif_choice("boundary", (int)b.size()); long cut = b[bi];
  VERIF_ASSERT(truncate(kLog, cut) == 0, "truncate");
  int tail = (int)verif_nondet("tail_len", 1, VERIF_TAIL);
  { FILE* f = fopen(kLog, "ab"); for (int i = 0; i < tail; i++) { unsigned char c = (unsigned char)verif_nondet("tail_byte", 0, 255); fwrite(&c, 1, 1, f); } fclose(f); }
  for (size_t i = 0; i < recs.size(); i++) if (rec_end[i] <= cut) m.apply(recs[i]);
  keep = cut;           // fewer than 12 arbitrary bytes cannot hold a well-formed record
  verif_reach("tail");
#elif defined(DAMAGE_BADREC)
  // cut at a record boundary, then append one well-framed record whose fields are arbitrary (a record from a crashed or foreign writer)
  std::vector<int> isd; std::vector<long> b = boundaries(&isd);
  int bi = verif_choice("boundary", (int)b.size()); long cut = b[bi];
  VERIF_ASSERT(truncate(kLog, cut) == 0, "truncate");
  {
    FILE* f = fopen(kLog, "ab");
    unsigned is_deps = (unsigned)verif_nondet("bad_is_deps", 0, 1);
    static const int kIds[] = { 0, 1, 5, 40, -1 };
    if (is_deps) {
      unsigned ndeps = (unsigned)verif_nondet("bad_deps_count", 0, 2);
      unsigned hdr = (12 + 4 * ndeps) | 0x80000000u; fwrite(&hdr, 4, 1, f);
      int out_id = kIds[verif_choice("bad_out_id", 5)]; fwrite(&out_id, 4, 1, f);
      int mt[2] = { 7, 0 }; fwrite(mt, 4, 2, f);
      for (unsigned k = 0; k < ndeps; k++) { int id = kIds[verif_choice("bad_dep_id", 5)]; fwrite(&id, 4, 1, f); }
    } else {
      unsigned hdr = 8; fwrite(&hdr, 4, 1, f);
      const char* nm = verif_bool("bad_path_duplicate") ? "a\0\0\0" : "zz\0\0"; fwrite(nm, 4, 1, f);
      unsigned checksum = ~(unsigned)verif_nondet("bad_checksum_id", 0, 6); fwrite(&checksum, 4, 1, f);
    }
    fclose(f);
  }
  keep = -1;
  verif_reach("badrec");
#elif defined(DAMAGE_RECOMPACT_CRASH)
  // a session that only recompacts, and dies right after a symbolic persistence event of the recompaction (temporary file, its flushes, the rename)
  long cut = full; keep = -1; for (size_t i = 0; i < recs.size(); i++) m.apply(recs[i]);
  {
    State* st = new_state(); DepsLog log; err.clear();
    VERIF_ASSERT(log.Load(kLog, st, &err) == LOAD_SUCCESS, "C09: load before recompaction");
    verif_vfs_die_after(verif_nondet("die_after_event", 0, VERIF_MAX_EVENTS));
    log.Recompact(kLog, &err);
    verif_reach(verif_vfs_frozen() ? "recompaction-killed" : "recompaction-completed");
    verif_vfs_freeze(0);
    g_skip_dead = true;
  }
#else
  long cut = full; keep = full; for (size_t i = 0; i < recs.size(); i++) m.apply(recs[i]);
#endif
  // ---- session 2: load what survived, check, append one more record, maybe recompact, close
#ifdef CONCRETE_SEQ
  Rec extra; extra.out = verif_choice("extra_out", 4); extra.mtime = 9; extra.deps_mask = 2 | 4;
#else
  Rec extra = sym_rec("extra");
#endif
  int recompact_when = verif_choice("recompact", 3);        // 0 never, 1 in session 2 (after the append), 2 in session 3
  {
    State* st = new_state(); DepsLog log; err.clear();
    LoadStatus ls = log.Load(kLog, st, &err);
    if (cut < 16) {
      VERIF_ASSERT(ls == LOAD_SUCCESS, "C09: a log torn inside its header is discarded, not an error");
      m = Model();
    } else {
      VERIF_ASSERT(ls == LOAD_SUCCESS, "C09: loading a torn or damaged log succeeds");
#if !defined(DAMAGE_BADREC)
      check_state(&log, st, m, "C09: loading recovers exactly the complete records (last record per output wins)");
#else
      g_only = extra.out;
#endif
#if defined(DAMAGE_TAIL)
      VERIF_ASSERT((long)verif_file_size(kLog) == keep, "C09: the damaged tail is cut off at the last good record");
#endif
#if defined(DAMAGE_TEAR)
      { // after recovery the file must end at a record boundary of the original file (or be the 16-byte header)
        long sz = (long)verif_file_size(kLog);
        VERIF_ASSERT(sz <= cut, "C09: recovery never grows the file");
        verif_obs(sz);
      }
#endif
    }
    VERIF_ASSERT(log.OpenForWrite(kLog, &err), "C09: open for append");
    std::vector<Node*> d = dep_nodes(st, extra.deps_mask);
    VERIF_ASSERT(log.RecordDeps(st->GetNode(kOuts[extra.out], 0), extra.mtime, d), "C09: RecordDeps after recovery succeeds");
    m.apply(extra);
    check_state(&log, st, m, "C09: in-memory state after appending");
    if (recompact_when == 1) {
      VERIF_ASSERT(log.Recompact(kLog, &err), "C09: recompaction succeeds");
      if (g_only < 0 || g_only == 3) m.mtime[3] = -1;        // 'dead' has no statement using deps: dropped; everything else kept
      if (extra.out != 3) g_skip_dead = false;
      check_state(&log, st, m, "C09: recompaction drops exactly the entries whose output has no statement using deps");
      verif_reach("recompact-2");
    }
    log.Close();
  }
  // ---- session 3: everything recorded so far must be there
  {
    State* st = new_state(); DepsLog log; err.clear();
    LoadStatus ls = log.Load(kLog, st, &err);
    VERIF_ASSERT(ls == LOAD_SUCCESS && err.empty(), "C09: the log written after recovery loads cleanly");
    check_state(&log, st, m, "C09: deps recorded after recovery (and everything kept before) survive the next load");
    if (recompact_when == 2) {
      VERIF_ASSERT(log.Recompact(kLog, &err), "C09: recompaction succeeds");
      m.mtime[3] = -1; g_skip_dead = false;
      check_state(&log, st, m, "C09: recompaction drops exactly the entries whose output has no statement using deps");
      log.Close();
      State* st4 = new_state(); DepsLog log4; err.clear();
      VERIF_ASSERT(log4.Load(kLog, st4, &err) == LOAD_SUCCESS && err.empty(), "C09: the recompacted log loads cleanly");
      check_state(&log4, st4, m, "C09: the recompacted log holds the same dependencies");
      verif_reach("recompact-3");
    }
    verif_obs((long)verif_file_size(kLog));
  }
  verif_reach("done");
  return 0;
}

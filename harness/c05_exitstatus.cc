// C05 (ninja exits with a non-zero status taken from a failed command; only a real interrupt counts as one): ParseExitStatus on EVERY wait status.
// Real code: the anonymous-namespace ParseExitStatus of src/subprocess-posix.cc, included textually and unchanged (nothing else of the unit is called).
#include "subprocess-posix.cc"
#include "verif.h"
#include <signal.h>
#include <sys/wait.h>
extern "C" int harness_main() {
  int status = (int)verif_nondet("wait_status", 0, 0xffff);
  const bool exited = WIFEXITED(status), signalled = WIFSIGNALED(status);
  VERIF_ASSUME(exited || signalled);                 // what waitpid() without WUNTRACED / WCONTINUED can report
  ExitStatus r = ParseExitStatus(status);
  if (exited) {
    VERIF_ASSERT((int)r == WEXITSTATUS(status), "C05: a command's exit code is handed on unchanged (only the code 130 itself reads as an interrupt)");
    verif_reach(WEXITSTATUS(status) ? "failed" : "succeeded");
  } else {
    const int sig = WTERMSIG(status);
    if (sig == SIGINT || sig == SIGTERM || sig == SIGHUP) { VERIF_ASSERT(r == ExitInterrupted, "C07: a command ended by SIGINT / SIGTERM / SIGHUP counts as interrupted"); verif_reach("interrupted"); }
    else { VERIF_ASSERT(r != ExitInterrupted && r != ExitSuccess && ((int)r & 0xff) != 0, "C05: a command killed by any other signal is a failure with a non-zero status, not an interrupt"); verif_reach("killed"); }
  }
  verif_obs((long)r);
  return 0;
}

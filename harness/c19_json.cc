// C19 (compdb output is valid JSON whatever bytes the commands contain): EncodeJSONString and PrintJSONString on symbolic strings.
#include "json.h"
#include "verif.h"
#include <stdio.h>
#include <string>
#ifndef VERIF_N
#define VERIF_N 3
#endif
// the same through PrintJSONString, which is what -t compdb / compdb-targets call: what reaches stdout is decoded
static bool decode(const std::string& out, std::string* decp);
extern "C" int harness_main() {
  int len = (int)verif_nondet("len", 0, VERIF_N);
  std::string in((size_t)len, 'x');
  for (int i = 0; i < len; i++) in[i] = (char)verif_nondet("byte", 1, 255);
  { verif_stdout_capture(); PrintJSONString(in); fflush(stdout); static char buf[256]; long n = verif_stdout_copy(buf, sizeof buf); std::string printed(buf, (size_t)n), dec2;
    bool ok2 = decode(printed, &dec2);
    VERIF_ASSERT(ok2, "C19: what PrintJSONString writes is a valid JSON string body");
    VERIF_ASSERT(!ok2 || dec2 == in, "C19: decoding what PrintJSONString wrote gives back the original bytes"); }
  std::string out = EncodeJSONString(in);
  // RFC 8259 string body: no raw control character, no raw quote, backslash only as part of an escape; decoding gives the input back
  std::string dec; bool ok = true; size_t i = 0;
  while (ok && i < out.size()) {
    unsigned char c = out[i];
    if (c < 0x20 || c == '"') { ok = false; break; }
    if (c != '\\') { dec.push_back((char)c); i++; continue; }
    if (i + 1 >= out.size()) { ok = false; break; }
    char e = out[i + 1];
    if (e == 'b') dec.push_back('\b'); else if (e == 'f') dec.push_back('\f'); else if (e == 'n') dec.push_back('\n'); else if (e == 'r') dec.push_back('\r'); else if (e == 't') dec.push_back('\t');
    else if (e == '\\' || e == '"' || e == '/') dec.push_back(e);
    else if (e == 'u') {
      if (i + 5 >= out.size()) { ok = false; break; }
      int v = 0; for (int k = 2; k < 6; k++) { char h = out[i + k]; int d = h >= '0' && h <= '9' ? h - '0' : h >= 'a' && h <= 'f' ? h - 'a' + 10 : h >= 'A' && h <= 'F' ? h - 'A' + 10 : -1; if (d < 0) ok = false; v = v * 16 + d; }
      if (v > 0xff) ok = false; dec.push_back((char)v); i += 6; continue;
    } else { ok = false; break; }
    i += 2;
  }
  VERIF_ASSERT(ok, "C19: the encoded text is a valid JSON string body");
  { std::string d3; bool ok3 = decode(out, &d3); VERIF_ASSERT(ok3 == ok && (!ok || d3 == dec), "harness: both decoders agree"); }
  VERIF_ASSERT(!ok || dec == in, "C19: decoding the JSON string gives back the original bytes");
  verif_reach(out.size() > in.size() ? "escaped" : "verbatim");
  verif_obs((long)out.size());
  return 0;
}

static bool decode(const std::string& out, std::string* decp) {
  std::string& dec = *decp; bool ok = true; size_t i = 0;
  while (ok && i < out.size()) {
    unsigned char c = out[i];
    if (c < 0x20 || c == '"') { ok = false; break; }
    if (c != '\\') { dec.push_back((char)c); i++; continue; }
    if (i + 1 >= out.size()) { ok = false; break; }
    char e = out[i + 1];
    if (e == 'b') dec.push_back('\b'); else if (e == 'f') dec.push_back('\f'); else if (e == 'n') dec.push_back('\n'); else if (e == 'r') dec.push_back('\r'); else if (e == 't') dec.push_back('\t');
    else if (e == '\\' || e == '"' || e == '/') dec.push_back(e);
    else if (e == 'u') {
      if (i + 5 >= out.size()) { ok = false; break; }
      int v = 0; for (int k = 2; k < 6; k++) { char h = out[i + k]; int d = h >= '0' && h <= '9' ? h - '0' : h >= 'a' && h <= 'f' ? h - 'a' + 10 : h >= 'A' && h <= 'F' ? h - 'A' + 10 : -1; if (d < 0) ok = false; v = v * 16 + d; }
      if (v > 0xff) ok = false; dec.push_back((char)v); i += 6; continue;
    } else { ok = false; break; }
    i += 2;
  }
  return ok;
}

// kit.h — the harness kit for the full-pipeline properties.
// Everything below ninja's DiskInterface / CommandRunner / Status interfaces is simulated here; everything above is the real code:
// ManifestParser, Lexer, State, EvalString, DependencyScan, ImplicitDepLoader, DyndepLoader/Parser, DepfileParser, CLParser, Plan, Builder, Pool,
// BuildLog and DepsLog (on the engine's in-memory file system / the real file system natively).
#ifndef VERIF_KIT_H_
#define VERIF_KIT_H_
#include <stdio.h>
#include <string.h>
#include <string>
#include <vector>
#define private public
#define protected public
#include "build.h"
#include "build_log.h"
#include "deps_log.h"
#include "disk_interface.h"
#include "graph.h"
#include "manifest_parser.h"
#include "state.h"
#include "status.h"
#include "status_printer.h"
#undef private
#undef protected
#include "verif.h"

// ------------------------------------------------------------------------------------------------ scenario description
enum { KEEP_IF_SAME = 1,   // the command leaves an output whose content would not change untouched (what restat rules are for)
       HALVE = 2,          // the command's result depends on its inputs only through content/2 (so that some edits do not change it)
       ALWAYS_FAILS = 4,
       EXPECT_CYCLE = 8,
       NONCANONICAL_DEPFILE = 16,
       REGEN_MANIFEST = 32,
       RUNS_RESTAT_TOOL = 64,
       REMOVES_EMPTY_DIRS = 128,
       HALVE_FIRST = 256,
       LAZY_DEPFILE = 512 };  // a write-if-changed wrapper: when the command finds its outputs up to date it skips the real work and writes no depfile (only used where the property does not depend on the reported dependencies: C02)   // only the command's FIRST output depends on its inputs through content/2: one edit rewrites some outputs of the statement and not others   // the command prunes every directory that holds no file (a packaging / tidy-up step: find -type d -empty -delete)     // the command runs `ninja -t restat` in the build directory when it is done (as CMake's regeneration step does)       // the statement regenerates build.ninja from configure.in (each edit of configure.in selects the next manifest variant)  // the command spells the extra files it read as ./name in its depfile (compilers do, for -I. includes)  // by the manifest text this statement lies on a dependency cycle (expectation independent of ninja's own parse)
struct CmdSpec {
  const char* out;            // first output of the statement this entry describes
  const char* extra_reads;    // files the command reads beyond its declared explicit/implicit inputs; it reports them (depfile / deps / dyndep)
  int flags;
  const char* dyndep_text;    // non-null: the statement's first output is a dyndep file and the command writes this text into it
};
struct Scenario {
  const char* name;
  const char* manifest[3];    // variant 0 is the initial manifest; the user may switch to another variant between invocations
  const char* sources;        // space separated: files that exist in the initial tree
  const char* targets;        // space separated menu of targets a user may request (a symbolic non-empty subset is requested)
  CmdSpec cmds[10];
};
static std::vector<std::string> split_words(const char* s) {
  std::vector<std::string> v; if (!s) return v; std::string cur;
  for (const char* p = s;; p++) { if (*p == ' ' || *p == 0) { if (!cur.empty()) v.push_back(cur); cur.clear(); if (!*p) break; } else cur.push_back(*p); }
  return v;
}

// ------------------------------------------------------------------------------------------------ the file tree and the clock
struct VFile { std::string name; bool exists; TimeStamp mtime; long content; std::string text; bool is_text; };
struct Tree {
  std::vector<VFile> files; TimeStamp now; std::vector<std::string> dirs;
  std::vector<std::string> log;        // every DiskInterface mutation, for the monitors
  Tree() : now(1) {}
  TimeStamp tick() { return ++now; }
  VFile* find(const std::string& n0) { std::string n = n0; while (n.compare(0, 2, "./") == 0) n = n.substr(2);      // the file system resolves ./x to x
    for (size_t i = 0; i < files.size(); i++) if (files[i].name == n) return &files[i]; return NULL; }
  VFile* get(const std::string& n) { VFile* f = find(n); if (f) return f; VFile nf; nf.name = n; nf.exists = false; nf.mtime = 0; nf.content = 0; nf.is_text = false; files.push_back(nf); return &files.back(); }
  bool exists(const std::string& n) { VFile* f = find(n); return f && f->exists; }
  void write(const std::string& n, long content) { VFile* f = get(n); f->exists = true; f->content = content; f->mtime = tick(); f->is_text = false; }
  void write_text(const std::string& n, const std::string& text) { VFile* f = get(n); f->exists = true; f->text = text; f->is_text = true; f->mtime = tick(); f->content = (long)text.size() * 131 + (text.empty() ? 0 : (unsigned char)text[text.size() / 2]); }
  void remove(const std::string& n) { VFile* f = find(n); if (f) f->exists = false; }
  bool has_dir(const std::string& d) { for (size_t i = 0; i < dirs.size(); i++) if (dirs[i] == d) return true; return false; }
};
static Tree* g_tree;
static const Scenario* g_sc;
static int g_manifest_variant;
static const char* g_msg_fresh = "C04: a command starts only after every producer of what it reads has brought it up to date";
static const std::string* g_dyndep_override;     // when set: the text the command producing g_dyndep_override_out writes instead of its spec's
static const char* g_dyndep_override_out = "dd";
static const std::string* g_depfile_override;    // when set: the bytes every command writes into its depfile (C13: arbitrary depfile content through both consumers)
static bool g_mkdir_may_fail;          // directory creation may fail (permissions, a file in the way)
static bool g_midrun_edit_done;        // at most one source is edited while a command runs, per history
static bool g_dead;                    // the simulated process has died: nothing ninja does persists any more (C07)
static bool g_long_output;            // commands that print, print more than ninja reads from a pipe in one go (4 KiB)
static int g_output_flavour;          // what commands print: 0 plain text, 1 with ANSI colour sequences, 2 with NUL / control / high bytes
static std::string out_block_as(const std::string& o0, bool as_written, bool colour_kept) {
  std::string mid;
  if (g_output_flavour == 1) mid = as_written || colour_kept ? "\x1B[1;31mwarning:\x1B[0m x\x1B[m\n" : "warning: x\n";      // (a non-terminal gets the text without the escape sequences)
  static const char kCtl[] = "nul[\0] bell[\a] bs[\b] del[\x7f] high[\xff\xfe] tab[\t]\n";
  if (g_output_flavour == 2) mid = std::string(kCtl, sizeof kCtl - 1);
  return "<<out " + o0 + ">>\n" + mid + (g_long_output ? std::string(4200, 'x') + "\n" : std::string()) + "part two of " + o0 + "\n";
}
static std::string out_block(const std::string& o0) { return out_block_as(o0, true, true); }                                   // what the command writes
static std::string shown_block(const std::string& o0, bool terminal) { return out_block_as(o0, false, terminal); }         // what ninja must show
static bool g_stat_may_fail, g_stat_failed, g_commands_started;   // fault injection for DiskInterface::Stat during the build
static void persistence_event() { if (verif_vfs_event()) g_dead = true; }     // one event counter for DiskInterface and stdio/unistd mutations

struct SymDisk : public DiskInterface {
  mutable int stats; int stat_fail_at; SymDisk() : stats(0), stat_fail_at(-1) {}
  TimeStamp Stat(const std::string& path, std::string* err) const override {
    stats++;
    // an I/O error on stat() once commands are running (at most one per invocation): ninja has to give up in an orderly way
    if (g_stat_may_fail && g_commands_started && !g_stat_failed && verif_bool("stat_fails")) { g_stat_failed = true; if (err) *err = "stat(" + path + "): Input/output error"; return -1; }
    VFile* f = g_tree->find(path);
    if (!f || !f->exists) return 0;
    return f->mtime;
  }
  bool WriteFile(const std::string& path, const std::string& contents, bool) override {
    persistence_event(); if (g_dead) return true;
    g_tree->log.push_back("write " + path);
    g_tree->write_text(path, contents); return true;
  }
  bool MakeDir(const std::string& path) override { if (g_mkdir_may_fail && verif_bool("mkdir_fails")) return false; persistence_event(); if (g_dead) return true; g_tree->log.push_back("mkdir " + path); if (!g_tree->has_dir(path)) g_tree->dirs.push_back(path); return true; }
  Status ReadFile(const std::string& path, std::string* contents, std::string* err) override {
    if (path == "build.ninja") { *contents = g_sc->manifest[g_manifest_variant]; return Okay; }
    VFile* f = g_tree->find(path);
    if (!f || !f->exists) { *err = "No such file or directory"; return NotFound; }
    if (f->is_text) *contents = f->text; else { char buf[32]; snprintf(buf, sizeof buf, "%ld", f->content); *contents = buf; }
    return Okay;
  }
  int RemoveFile(const std::string& path) override {
    persistence_event(); if (g_dead) return 0;
    VFile* f = g_tree->find(path); if (!f || !f->exists) return 1;
    g_tree->log.push_back("remove " + path); f->exists = false; return 0;
  }
};

// ------------------------------------------------------------------------------------------------ commands as functions of what they read
static const CmdSpec* spec_for(const std::string& out0, int* idx = NULL) {
  for (int i = 0; i < 10 && g_sc->cmds[i].out; i++) if (out0 == g_sc->cmds[i].out) { if (idx) *idx = i; return &g_sc->cmds[i]; }
  return NULL;
}
static int edge_ordinal(const Edge* e) { return (int)e->id_; }
// a command's result also depends on its command line and response-file content (not for generator rules: ninja does not re-run those on a changed line)
static long cmd_hash(const std::string& c) { long h = 7; for (size_t i = 0; i < c.size(); i++) h = (h * 131 + (unsigned char)c[i]) % 1000003L; return h; }
static long mix(int ordinal, int k, const std::vector<long>& in, int flags, long cmdh = 0) {
  long c = 1000 + 97 * ordinal + k + cmdh * 7;
  for (size_t i = 0; i < in.size(); i++) c = c * 31 + (((flags & HALVE) || ((flags & HALVE_FIRST) && k == 0)) ? in[i] / 2 : in[i]) % 100003;
  return c % 1000000007L;
}
// declared-input view of the current manifest used by the reference ("what would a from-scratch build produce")
struct RefEdge { std::vector<std::string> outs, reads, order_only, validations; int ordinal; int flags; bool phony; bool generator; size_t ndeclared; std::string command, plain_depfile; long cmdh;
  std::string depfile, rspfile, rspfile_content, pool_name, deps_type; int pool_depth; bool console; bool restat; };
static std::vector<RefEdge> g_ref;
static void build_reference(State* st) {
  g_ref.clear();
  for (size_t i = 0; i < st->edges_.size(); i++) {
    Edge* e = st->edges_[i]; RefEdge r; r.ordinal = edge_ordinal(e); r.phony = e->is_phony();
    for (size_t k = 0; k < e->outputs_.size(); k++) r.outs.push_back(e->outputs_[k]->path());
    // before any dyndep/depfile splicing: only what the manifest declares
    size_t n = e->inputs_.size() - e->order_only_deps_;
    for (size_t k = 0; k < n; k++) r.reads.push_back(e->inputs_[k]->path());
    for (size_t k = n; k < e->inputs_.size(); k++) r.order_only.push_back(e->inputs_[k]->path());
    for (size_t k = 0; k < e->validations_.size(); k++) r.validations.push_back(e->validations_[k]->path());
    r.ndeclared = r.reads.size(); r.generator = e->GetBindingBool("generator"); r.command = e->EvaluateCommand(true); r.cmdh = r.generator ? 0 : cmd_hash(r.command);
    if (e->GetBinding("deps").empty()) r.plain_depfile = e->GetUnescapedDepfile();
    r.depfile = e->GetUnescapedDepfile(); r.rspfile = e->GetUnescapedRspfile(); r.rspfile_content = e->GetBinding("rspfile_content"); r.pool_name = e->pool()->name(); r.pool_depth = e->pool()->depth(); r.console = e->use_console(); r.deps_type = e->GetBinding("deps"); r.restat = e->GetBindingBool("restat");
    const CmdSpec* s = spec_for(r.outs[0]); r.flags = s ? s->flags : 0;
    if (s) { std::vector<std::string> x = split_words(s->extra_reads);
             // "one.h|two.h": which of the two the command includes depends on the current text of its first declared input (the source switched its #include)
             // "d@0": read only while manifest variant 0 is in effect (the source stopped including it when the project was reorganised)
             { std::vector<std::string> keep; for (size_t q = 0; q < x.size(); q++) { size_t at = x[q].find('@'); if (at == std::string::npos) keep.push_back(x[q]); else if (x[q][at + 1] - '0' == g_manifest_variant) keep.push_back(x[q].substr(0, at)); } x = keep; }
             for (size_t q = 0; q < x.size(); q++) { size_t bar = x[q].find('|'); if (bar == std::string::npos) continue; VFile* f0 = r.reads.empty() ? NULL : g_tree->find(r.reads[0]); bool second = f0 && f0->exists && (f0->content & 1); x[q] = second ? x[q].substr(bar + 1) : x[q].substr(0, bar); }
             for (size_t q = 0; q < x.size(); q++) { bool have = false; for (size_t z = 0; z < r.reads.size(); z++) have = have || r.reads[z] == x[q]; if (!have) r.reads.push_back(x[q]); }
             if (s->dyndep_text) r.flags |= 0; }
    g_ref.push_back(r);
  }
  // phony statements are aliases, not files: what a command reads through an alias are the alias's own inputs
  for (int pass = 0; pass < 4; pass++)
    for (size_t i = 0; i < g_ref.size(); i++) {
      if (g_ref[i].phony) continue;
      std::vector<std::string> flat; size_t ndecl = 0;
      for (size_t q = 0; q < g_ref[i].reads.size(); q++) {
        const RefEdge* pe = NULL;
        for (size_t z = 0; z < g_ref.size(); z++) if (g_ref[z].phony) for (size_t o = 0; o < g_ref[z].outs.size(); o++) if (g_ref[z].outs[o] == g_ref[i].reads[q]) pe = &g_ref[z];
        if (pe) { for (size_t k = 0; k < pe->reads.size(); k++) flat.push_back(pe->reads[k]); for (size_t k = 0; k < pe->order_only.size(); k++) g_ref[i].order_only.push_back(pe->order_only[k]); }
        else flat.push_back(g_ref[i].reads[q]);
        if (q + 1 == g_ref[i].ndeclared) ndecl = flat.size();
      }
      if (g_ref[i].ndeclared == 0) ndecl = 0;
      g_ref[i].reads = flat; g_ref[i].ndeclared = ndecl;
    }
}
static const RefEdge* ref_producer(const std::string& f, int* k = NULL) {
  for (size_t i = 0; i < g_ref.size(); i++) for (size_t o = 0; o < g_ref[i].outs.size(); o++) if (g_ref[i].outs[o] == f) { if (k) *k = (int)o; return &g_ref[i]; }
  return NULL;
}
// the files a command reads: the explicit and implicit inputs its statement declares in the manifest, then the extra files of its spec
// (taken from the reference view: the live Edge also carries inputs spliced in from depfiles, the deps log and dyndep files)
static std::vector<std::string> read_set(const Edge* e) {
  for (size_t i = 0; i < g_ref.size(); i++) if (g_ref[i].ordinal == edge_ordinal(e)) return g_ref[i].reads;
  return std::vector<std::string>();
}
// content a from-scratch build of the current sources gives file f; *ok = false if some needed source is missing
static long clean_content(const std::string& f, bool* ok, int depth = 0) {
  int k = 0; const RefEdge* e = ref_producer(f, &k);
  if (depth > 12) { *ok = false; return 0; }
  if (!e || e->phony) { VFile* v = g_tree->find(f); if (!v || !v->exists) { if (!e) *ok = false; return 0; } return v->content; }
  const CmdSpec* s = spec_for(e->outs[0]);
  if (s && s->dyndep_text && k == 0) { std::string t = s->dyndep_text; return (long)t.size() * 131 + (t.empty() ? 0 : (unsigned char)t[t.size() / 2]); }
  std::vector<long> in; for (size_t i = 0; i < e->reads.size(); i++) in.push_back(clean_content(e->reads[i], ok, depth + 1));
  return mix(e->ordinal, k, in, e->flags, e->cmdh);
}
// everything a set of targets transitively depends on (all input kinds, extra reads, validations), outputs of non-phony statements only
static void closure(const std::string& f, std::vector<std::string>* out, int depth = 0) {
  for (size_t i = 0; i < out->size(); i++) if ((*out)[i] == f) return;
  out->push_back(f);
  const RefEdge* e = ref_producer(f); if (!e || depth > 12) return;
  for (size_t i = 0; i < e->reads.size(); i++) closure(e->reads[i], out, depth + 1);
  for (size_t i = 0; i < e->order_only.size(); i++) closure(e->order_only[i], out, depth + 1);
  for (size_t i = 0; i < e->validations.size(); i++) closure(e->validations[i], out, depth + 1);
  for (size_t i = 0; i < e->outs.size(); i++) closure(e->outs[i], out, depth + 1);
}

// what each statement's command saw the last time it succeeded (for the minimality reference of C03)
struct LastRun { bool ran; std::vector<long> snap; std::string command; LastRun() : ran(false) {} };
static LastRun g_last[16];
// a build command that runs `ninja -t restat` itself: the real BuildLog::Restat rewrites .ninja_log (temporary file + rename) under the feet of the
// ninja that started the command
static void run_restat_tool_from_command();
static void edit_file(const std::string& name, int amount);
// ------------------------------------------------------------------------------------------------ the command runner
struct Running { Edge* edge; std::vector<long> snap; bool missing_input; int flags; bool phantom; long stdout_len_at_start; long cmdh; };
struct TokenPool;
struct RunnerOpts { int parallelism; bool may_fail; bool may_interrupt; bool check_inputs_fresh; bool failed_touch; bool start_may_fail; bool check_idle; bool sym_exit_code; bool prints_output; bool edit_during_run; TokenPool* tokens; Builder* builder; int failures_allowed;
  RunnerOpts() : parallelism(1), may_fail(false), may_interrupt(false), check_inputs_fresh(false), failed_touch(false), start_may_fail(false), check_idle(false), sym_exit_code(false), prints_output(false), edit_during_run(false), tokens(NULL), builder(NULL), failures_allowed(1) {} };
// a GNU make jobserver pool reduced to its protocol: one implicit slot plus `pool` explicit tokens; acquiring may fail whenever the pool is empty
struct TokenPool : public Jobserver::Client {
  int pool, acquired, released; bool implicit_out; TokenPool(int n) : pool(n), acquired(0), released(0), implicit_out(false) {}
  Jobserver::Slot TryAcquire() override {
    if (!implicit_out) { implicit_out = true; acquired++; return Jobserver::Slot::CreateImplicit(); }
    if (pool > 0) { pool--; acquired++; return Jobserver::Slot::CreateExplicit((uint8_t)'+'); }
    return Jobserver::Slot();
  }
  void Release(Jobserver::Slot slot) override {
    if (!slot.IsValid()) return;
    if (slot.IsImplicit()) implicit_out = false; else pool++;
    released++;
  }
  int outstanding() const { return acquired - released; }
};
// where a runner created behind NinjaMain (CommandRunner::factory) leaves what it observed: one invocation may create several (manifest regeneration)
// the exit code of a failing command: 1..3, or (WIDE_EXIT_CODES) one of the codes a shell, a wrapper script or a test driver hands on -
// 126/127 (sh: not executable / not found), 128 + SIGHUP/SIGQUIT/SIGKILL/SIGSEGV/SIGTERM (a child of the command died by a signal), the boundaries 128 and 255.
// 130 is the interrupt code and excluded by the property.
static inline int sym_exit_code() {
#ifdef WIDE_EXIT_CODES
#ifdef REAL_RUNNER
  static const int kCodes[] = { 2, 127, 129, 143, 255 };      // (the process-layer job is several times as expensive per path: a shorter menu)
  const int kN = 5;
#else
  static const int kCodes[] = { 1, 2, 3, 126, 127, 128, 129, 131, 137, 139, 143, 255 };
  const int kN = 12;
#endif
  static bool first = true;      // the first command that fails draws from the whole menu, later ones from 1..3 (keeps the product small; the process-wide flag is per path)
  if (!first) return 1 + verif_choice("exit_code_minus_1", 3);
  first = false;
  return kCodes[verif_concretize(verif_choice("exit_code_index", kN))];
#else
  return 1 + verif_choice("exit_code_minus_1", 3);
#endif
}
struct RunnerSink { std::vector<int> started, finished_ok, failed, exit_codes; std::vector<std::string> events; int max_running; bool interrupted; int runners; RunnerSink() : max_running(0), interrupted(false), runners(0) {} };
static RunnerSink* g_sink;
static int regen_variant();
struct SymRunner : public CommandRunner {
  RunnerOpts opt; std::vector<Running> active;
  std::vector<int> started, finished_ok, failed;            // edge ordinals, in order
  std::vector<std::string> events;                          // "start <out>" / "ok <out>" / "fail <out>"
  std::vector<int> exit_codes;                              // of the failed commands
  int max_running; bool interrupted; int failures_seen;
  SymRunner() : max_running(0), interrupted(false), failures_seen(0) {}
  ~SymRunner() override {
    if (!g_sink) return;
    g_sink->runners++; if (g_sink->runners > 1) g_sink->events.push_back("reload");
    g_sink->started.insert(g_sink->started.end(), started.begin(), started.end()); g_sink->finished_ok.insert(g_sink->finished_ok.end(), finished_ok.begin(), finished_ok.end());
    g_sink->failed.insert(g_sink->failed.end(), failed.begin(), failed.end()); g_sink->exit_codes.insert(g_sink->exit_codes.end(), exit_codes.begin(), exit_codes.end());
    g_sink->events.insert(g_sink->events.end(), events.begin(), events.end()); if (max_running > g_sink->max_running) g_sink->max_running = max_running; g_sink->interrupted = g_sink->interrupted || interrupted;
  }
  size_t CanRunMore() const override {
    if (opt.tokens) return 1000;       // as RealCommandRunner: with a jobserver the tokens acquired in Plan::FindWork limit the jobs
    return (size_t)opt.parallelism > active.size() ? opt.parallelism - active.size() : 0; }
  static bool in(const std::vector<int>& v, int x) { for (size_t i = 0; i < v.size(); i++) if (v[i] == x) return true; return false; }
  bool StartCommand(Edge* e) override {
    if (verif_vfs_frozen()) g_dead = true;
    Running r; r.edge = e; r.missing_input = false; r.phantom = g_dead;     // a dead ninja starts nothing: what it "starts" has no effect
    const CmdSpec* s = spec_for(e->outputs_[0]->path()); r.flags = s ? s->flags : 0;
    r.cmdh = e->GetBindingBool("generator") ? 0 : cmd_hash(e->EvaluateCommand(true));
    if (opt.start_may_fail && verif_bool("spawn_fails")) { events.push_back("spawnfail " + e->outputs_[0]->path()); return false; }
    VERIF_ASSERT(!in(started, edge_ordinal(e)), "C06: each build statement's command runs at most once per invocation");
    if (opt.tokens) VERIF_ASSERT((int)active.size() < opt.tokens->outstanding(), "C06: never more commands running than jobserver tokens held");
    else VERIF_ASSERT((int)active.size() < opt.parallelism, "C06: never more commands running than -j allows");
    { // pool depth (console: 1)
      Pool* pool = e->pool(); int same = 0;
      for (size_t i = 0; i < active.size(); i++) if (active[i].edge->pool() == pool) same++;
      if (pool->depth() > 0) VERIF_ASSERT(same < pool->depth(), "C06: never more commands of a pool running than its depth");
    }
    std::vector<std::string> reads = read_set(e);
    size_t ndecl = reads.size(); for (size_t i = 0; i < g_ref.size(); i++) if (g_ref[i].ordinal == edge_ordinal(e)) ndecl = g_ref[i].ndeclared;
    for (size_t i = 0; i < reads.size(); i++) {
      VFile* f = g_tree->find(reads[i]);
      if (!f || !f->exists) { if (i < ndecl) r.missing_input = true; r.snap.push_back(0); }   // a vanished extra (discovered) file is simply no longer read
      else r.snap.push_back(f->content);
      if (opt.check_inputs_fresh && ref_producer(reads[i]) && !ref_producer(reads[i])->phony) {
        bool ok = true; long want = clean_content(reads[i], &ok);
        if (ok) VERIF_ASSERT(f && f->exists && f->content == want, g_msg_fresh);
      }
    }
    // directories of outputs and depfile exist, response file holds the declared content
    for (size_t i = 0; i < e->outputs_.size(); i++) { const std::string& p = e->outputs_[i]->path(); size_t sl = p.rfind('/'); if (sl != std::string::npos) VERIF_ASSERT(g_dead || g_tree->has_dir(p.substr(0, sl)), "C04: the directory of every output exists when the command starts"); }
    std::string dep = e->GetUnescapedDepfile();
    if (!dep.empty()) { size_t sl = dep.rfind('/'); if (sl != std::string::npos) VERIF_ASSERT(g_dead || g_tree->has_dir(dep.substr(0, sl)), "C04: the directory of the depfile exists when the command starts"); }
    std::string rsp = e->GetUnescapedRspfile();
    if (!rsp.empty() && !g_dead && !verif_vfs_frozen()) { VFile* f = g_tree->find(rsp); VERIF_ASSERT(f && f->exists && f->is_text && f->text == e->GetBinding("rspfile_content"), "C16: the response file holds exactly the evaluated rspfile_content when the command starts"); }
    r.stdout_len_at_start = opt.prints_output ? verif_stdout_len() : 0;
    g_commands_started = true;
    active.push_back(r); started.push_back(edge_ordinal(e)); events.push_back("start " + e->outputs_[0]->path());
    if ((int)active.size() > max_running) max_running = (int)active.size();
    return true;
  }
  BuildResult WaitForCommand() override {
    if (active.empty()) return BuildResult::Finished{};
    if (verif_vfs_frozen()) g_dead = true;
    if (opt.check_idle && opt.builder && failures_seen < opt.failures_allowed && !opt.tokens && (int)active.size() < opt.parallelism)
      VERIF_ASSERT(opt.builder->plan_.ready_.empty(), "C06: ninja never waits while a startable command and a free slot exist");
    if (opt.may_interrupt && verif_bool("interrupt_now")) {
      interrupted = true;
      // commands that were running may already have modified their outputs
      for (size_t i = 0; i < active.size(); i++) if (verif_bool("interrupted_command_touched_outputs")) {
        Edge* e = active[i].edge; for (size_t k = 0; k < e->outputs_.size(); k++) g_tree->write(e->outputs_[k]->path(), -13 - (long)k);
        events.push_back("touched " + e->outputs_[0]->path());
      }
      return BuildResult::Interrupted{};
    }
    int i = active.size() > 1 ? verif_choice("finish_which", (int)active.size()) : 0;
    Running r = active[i]; active.erase(active.begin() + i);
    Edge* e = r.edge; int ord = edge_ordinal(e);
    if (opt.prints_output && e->use_console())
      VERIF_ASSERT(verif_stdout_len() == r.stdout_len_at_start, "C20: while a console-pool command owns the terminal nothing else is written to it");
    bool fail = r.missing_input || (r.flags & ALWAYS_FAILS);
    if (!fail && opt.may_fail) fail = verif_bool("command_fails");
    ExitStatus st = ExitSuccess; std::string output;
    if (r.phantom || (g_dead && verif_bool("command_killed_with_ninja"))) {
      // started by a ninja that was already dead (no effect), or killed together with it before replacing its outputs
#ifdef PARTIAL_WRITES
      // ... or after it had begun to write them: the files are there, newer than every input, and hold garbage (nothing of this was recorded)
      if (!r.phantom && verif_bool("killed_command_left_partial_output")) { for (size_t k = 0; k < e->outputs_.size(); k++) g_tree->write(e->outputs_[k]->path(), -21 - (long)k); events.push_back("partial " + e->outputs_[0]->path()); }
#endif
      return BuildResult::CommandCompleted(e, st, "");
    }
    if (fail) {
      st = ExitFailure; if (opt.sym_exit_code) st = (ExitStatus)sym_exit_code();
      failed.push_back(ord); exit_codes.push_back((int)st); failures_seen++; events.push_back("fail " + e->outputs_[0]->path());
      if (opt.failed_touch && verif_bool("failed_command_touched_outputs")) for (size_t k = 0; k < e->outputs_.size(); k++) g_tree->write(e->outputs_[k]->path(), -7 - (long)k);
      return BuildResult::CommandCompleted(e, st, opt.prints_output ? "<<err " + e->outputs_[0]->path() + ">>\n" : std::string("boom"));
    }
    const CmdSpec* s = spec_for(e->outputs_[0]->path());
    // the user saves one of the sources this command has already read while it is still running: the outputs it is about to write are newer
    // than that edit but made from the old text (C01: "picked up by the next run", restat and generator rules excepted)
    // (whether a statement is a restat / generator statement is taken from the manifest as written, not from the live edge)
    bool excepted = (r.flags & KEEP_IF_SAME) != 0; for (size_t i = 0; i < g_ref.size(); i++) if (g_ref[i].ordinal == ord) excepted = excepted || g_ref[i].restat || g_ref[i].generator;
    if (opt.edit_during_run && !g_midrun_edit_done && !excepted) {
      std::vector<std::string> rd = read_set(e);
      for (size_t i = 0; i < rd.size() && !g_midrun_edit_done; i++) { VFile* f = g_tree->find(rd[i]); if (!f || !f->exists || f->is_text || ref_producer(rd[i])) continue;
        if (verif_bool("source_edited_while_command_ran")) { edit_file(rd[i], 1); g_midrun_edit_done = true; events.push_back("midedit " + rd[i]); } }
    }
    bool wrote_output = false;
    for (size_t k = 0; k < e->outputs_.size(); k++) {
      const std::string& p = e->outputs_[k]->path();
      if (s && s->dyndep_text && k == 0) {
        VFile* f = g_tree->find(p); std::string text = (g_dyndep_override && p == g_dyndep_override_out) ? *g_dyndep_override : std::string(s->dyndep_text);
        if (!((r.flags & KEEP_IF_SAME) && f && f->exists && f->is_text && f->text == text)) g_tree->write_text(p, text);
        continue;
      }
      long c = mix(ord, (int)k, r.snap, r.flags, r.cmdh);
      VFile* f = g_tree->find(p);
      if ((r.flags & KEEP_IF_SAME) && f && f->exists && !f->is_text && f->content == c) continue;    // identical output left untouched
      g_tree->write(p, c); wrote_output = true;
    }
    if (r.flags & REGEN_MANIFEST) g_manifest_variant = regen_variant();       // the generator has rewritten build.ninja from configure.in
    if (r.flags & RUNS_RESTAT_TOOL) run_restat_tool_from_command();
    if (r.flags & REMOVES_EMPTY_DIRS) { std::vector<std::string> keep; for (size_t d = 0; d < g_tree->dirs.size(); d++) { bool used = false; const std::string pre = g_tree->dirs[d] + "/";
        for (size_t q = 0; q < g_tree->files.size(); q++) used = used || (g_tree->files[q].exists && g_tree->files[q].name.compare(0, pre.size(), pre) == 0);
        if (used) keep.push_back(g_tree->dirs[d]); else events.push_back("rmdir " + g_tree->dirs[d]); } g_tree->dirs = keep; }
    std::vector<std::string> reads = read_set(e);
    std::string dep = e->GetUnescapedDepfile();
    if (!dep.empty() && !((r.flags & LAZY_DEPFILE) && !wrote_output)) { std::string t = e->outputs_[0]->path() + ":"; size_t nd = reads.size(); for (size_t z = 0; z < g_ref.size(); z++) if (g_ref[z].ordinal == ord) nd = g_ref[z].ndeclared;
      for (size_t q = 0; q < reads.size(); q++) t += ((r.flags & NONCANONICAL_DEPFILE) && q >= nd ? " ./" : " ") + reads[q]; t += "\n"; if (g_depfile_override) t = *g_depfile_override; g_tree->write_text(dep, t); }
    if (opt.prints_output && !e->use_console() && verif_bool("command_prints")) { output += out_block(e->outputs_[0]->path()); events.push_back("printed " + e->outputs_[0]->path()); }
    if (e->GetBinding("deps") == "msvc") { for (size_t q = 0; q < reads.size(); q++) output += "Note: including file: " + reads[q] + "\n"; }
    if (ord < 16) { g_last[ord].ran = true; g_last[ord].snap = r.snap; g_last[ord].command = e->EvaluateCommand(true); }
    finished_ok.push_back(ord); events.push_back("ok " + e->outputs_[0]->path());
    return BuildResult::CommandCompleted(e, st, output);
  }
  std::vector<Edge*> GetActiveEdges() override { std::vector<Edge*> v; for (size_t i = 0; i < active.size(); i++) v.push_back(active[i].edge); return v; }
  void Abort() override {
    if (opt.tokens) for (size_t i = 0; i < active.size(); i++) opt.tokens->Release(std::move(active[i].edge->job_slot_));   // as RealCommandRunner::ClearJobTokens
    active.clear(); }
};

static void run_restat_tool_from_command() { BuildLog log; std::string err; if (log.Load(".ninja_log", &err) == LOAD_SUCCESS) { SymDisk d; log.Restat(".ninja_log", d, 0, NULL, &err); } }
struct RecStatus : public Status {
  int added, removed, started, finished, failed_n; bool build_started, build_finished; std::vector<std::string> msgs; std::vector<int> started_edges;
  RecStatus() : added(0), removed(0), started(0), finished(0), failed_n(0), build_started(false), build_finished(false) {}
  void EdgeAddedToPlan(const Edge*) override { added++; } void EdgeRemovedFromPlan(const Edge*) override { removed++; }
  void BuildEdgeStarted(const Edge* e, int64_t) override { started++; started_edges.push_back((int)e->id_); }
  void BuildEdgeFinished(Edge*, int64_t, int64_t, ExitStatus st, const std::string&) override { finished++; if (st != ExitSuccess) failed_n++; }
  void BuildStarted() override { build_started = true; } void BuildFinished() override { build_finished = true; } void NewLine() override {}
  void SetExplanations(Explanations*) override {}
  void Info(const char* m, ...) override { msgs.push_back(std::string("info: ") + m); }
  void Warning(const char* m, ...) override { msgs.push_back(std::string("warning: ") + m); }
  void Error(const char* m, ...) override { msgs.push_back(std::string("error: ") + m); }
};
// the real StatusPrinter (and LinePrinter) next to the recording monitor
struct TeeStatus : public Status {
  RecStatus* rec; StatusPrinter* real; TeeStatus(RecStatus* r, StatusPrinter* p) : rec(r), real(p) {}
  void EdgeAddedToPlan(const Edge* e) override { rec->EdgeAddedToPlan(e); real->EdgeAddedToPlan(e); } void EdgeRemovedFromPlan(const Edge* e) override { rec->EdgeRemovedFromPlan(e); real->EdgeRemovedFromPlan(e); }
  void BuildEdgeStarted(const Edge* e, int64_t t) override { rec->BuildEdgeStarted(e, t); real->BuildEdgeStarted(e, t); }
  void BuildEdgeFinished(Edge* e, int64_t a, int64_t b, ExitStatus st, const std::string& o) override { rec->BuildEdgeFinished(e, a, b, st, o); real->BuildEdgeFinished(e, a, b, st, o); }
  void BuildStarted() override { rec->BuildStarted(); real->BuildStarted(); } void BuildFinished() override { rec->BuildFinished(); real->BuildFinished(); } void NewLine() override {}
  void SetExplanations(Explanations* x) override { real->SetExplanations(x); }
  void Info(const char* m, ...) override { rec->Info(m); } void Warning(const char* m, ...) override { rec->Warning(m); } void Error(const char* m, ...) override { rec->Error(m); }
};
struct NoDeadPaths : public BuildLogUser { bool IsPathDead(StringPiece) const override { return false; } };

// ------------------------------------------------------------------------------------------------ one ninja invocation
struct InvocationOpts { RunnerOpts run; int failures_allowed; std::vector<std::string> targets; bool use_logs; bool dry_run; int token_pool; bool real_status; const char* status_option; InvocationOpts() : failures_allowed(1), use_logs(true), dry_run(false), token_pool(-1), real_status(false), status_option(NULL) {} };
struct InvocationResult {
  bool parsed, loaded, added; int rc; bool up_to_date; std::string err;
  std::vector<int> started, finished_ok, failed, exit_codes; std::vector<std::string> events; int max_running; bool stuck; bool interrupted; int tokens_outstanding; int status_started, status_finished, status_added, status_removed; std::vector<int> status_started_edges; int sp_started, sp_finished, sp_total;
  InvocationResult() : parsed(false), loaded(false), added(false), rc(-1), up_to_date(false), max_running(0), stuck(false), interrupted(false), tokens_outstanding(0), status_started(0), status_finished(0), status_added(0), status_removed(0), sp_started(0), sp_finished(0), sp_total(0) {}
};
static bool has_id(const std::vector<int>& v, int x) { for (size_t i = 0; i < v.size(); i++) if (v[i] == x) return true; return false; }

#ifdef VIA_MAIN
static InvocationResult invoke_main(const InvocationOpts& o);      // mainkit.h: the same invocation through ninja.cc's real_main
static InvocationResult invoke(const InvocationOpts& o) { return invoke_main(o); }
static InvocationResult invoke_direct(const InvocationOpts& o) {
#else
static InvocationResult invoke(const InvocationOpts& o) {
#endif
  InvocationResult res;
  // every ninja invocation is a new process: the process-wide pool objects start out empty
  State::kDefaultPool.current_use_ = 0; State::kDefaultPool.delayed_.clear();
  g_stat_failed = false; g_commands_started = false;
  State::kConsolePool.current_use_ = 0; State::kConsolePool.delayed_.clear();
  State* state = new State; SymDisk* disk = new SymDisk; RecStatus* status = new RecStatus; BuildConfig* config = new BuildConfig;
  config->verbosity = o.real_status ? BuildConfig::NORMAL : BuildConfig::QUIET;
  config->progress_status_format = o.status_option;
  Status* status_if = status; StatusPrinter* sp = NULL; if (o.real_status) { sp = new StatusPrinter(*config); status_if = new TeeStatus(status, sp); }
  std::string err;
  ManifestParser parser(state, disk);
  res.parsed = parser.Load("build.ninja", &err);
  if (!res.parsed) { res.err = err; return res; }
  build_reference(state);
  BuildLog* log = NULL; DepsLog* deps = NULL; NoDeadPaths user;
  if (o.use_logs) {
    log = new BuildLog; deps = new DepsLog;
    bool ok = log->Load(".ninja_log", &err) != LOAD_ERROR; err.clear();
    if (!o.dry_run) ok = ok && log->OpenForWrite(".ninja_log", user, &err);
    ok = ok && deps->Load(".ninja_deps", state, &err) != LOAD_ERROR; err.clear();
    if (!o.dry_run) ok = ok && deps->OpenForWrite(".ninja_deps", &err);
    res.loaded = ok;
    VERIF_ASSERT(ok, "C07/C08/C09: both logs load and open at the start of an invocation");
    if (!ok) return res;
  }
  config->parallelism = o.run.parallelism; config->failures_allowed = o.failures_allowed; config->dry_run = o.dry_run;
  TokenPool* tokens = o.token_pool >= 0 ? new TokenPool(o.token_pool) : NULL;
  {
    Builder builder(state, *config, log, deps, disk, status_if, 0);
    if (tokens) builder.SetJobserverClient(std::unique_ptr<Jobserver::Client>(tokens));
    SymRunner* runner = new SymRunner; runner->opt = o.run; runner->opt.tokens = tokens; runner->opt.builder = &builder; runner->opt.failures_allowed = o.failures_allowed;
    if (!o.dry_run) builder.command_runner_.reset(runner);
    res.added = true;
    for (size_t i = 0; i < o.targets.size() && res.added; i++) {
      Node* t = state->LookupNode(o.targets[i]);
      if (!t) { res.added = false; res.err = "unknown target"; break; }
      if (!builder.AddTarget(t, &err)) { res.added = false; res.err = err; }
    }
    if (res.added) {
      if (builder.AlreadyUpToDate()) { res.up_to_date = true; res.rc = 0; }
      else {
        ExitStatus st = builder.Build(&err);
        res.rc = (int)st; res.err = err; res.stuck = err == "stuck [this is a bug]";
      }
    }
    res.started = runner->started; res.finished_ok = runner->finished_ok; res.failed = runner->failed; res.events = runner->events; res.max_running = runner->max_running;
    res.exit_codes = runner->exit_codes; res.interrupted = runner->interrupted;
    if (tokens) { tokens = (TokenPool*)builder.jobserver_.release(); }      // keep the counters alive beyond ~Builder
    if (o.dry_run) delete runner;
  }
  if (tokens) res.tokens_outstanding = tokens->outstanding();
  if (sp) { res.sp_started = sp->started_edges_; res.sp_finished = sp->finished_edges_; res.sp_total = sp->total_edges_; }
  res.status_started_edges = status->started_edges; res.status_started = status->started; res.status_finished = status->finished; res.status_added = status->added; res.status_removed = status->removed;
  if (log && !o.dry_run) { log->Close(); deps->Close(); }
  return res;
}

// ------------------------------------------------------------------------------------------------ scenario set-up and the oracles shared by several properties
static bool scenario_regenerates() { for (int i = 0; i < 10 && g_sc->cmds[i].out; i++) if (g_sc->cmds[i].flags & REGEN_MANIFEST) return true; return false; }
// the manifest the generator writes: every edit of configure.in selects the next variant
static int regen_variant() {
  int nvar = 1; while (nvar < 3 && g_sc->manifest[nvar]) nvar++;
  std::vector<std::string> src = split_words(g_sc->sources); VFile* f = g_tree->find("configure.in"); if (!f || !f->exists) return 0;
  long base = 0; for (size_t i = 0; i < src.size(); i++) if (src[i] == "configure.in") base = 100 + 10 * (long)i;
  return (int)((f->content - base) % nvar);
}
static void init_tree(const Scenario* sc) {
  for (int i = 0; i < 16; i++) g_last[i] = LastRun();
  g_sc = sc; g_tree = new Tree; g_manifest_variant = 0; g_mkdir_may_fail = false; g_dead = false; g_midrun_edit_done = false;
  std::vector<std::string> src = split_words(sc->sources);
  for (size_t i = 0; i < src.size(); i++) { VFile f; f.name = src[i]; f.exists = true; f.mtime = 1; f.content = 100 + 10 * (long)i; f.is_text = false; if (src[i].compare(0, 2, "eq") == 0) f.content = 501; g_tree->files.push_back(f); }      // files named eq* start out with equal (odd) contents: the next edit changes what a HALVE command makes of them
  // a dyndep file that is checked in rather than generated: a source holding the dyndep text
  for (int i = 0; i < 10 && sc->cmds[i].out; i++) if (sc->cmds[i].dyndep_text) for (size_t k = 0; k < src.size(); k++) if (src[k] == sc->cmds[i].out) { VFile* f = g_tree->find(src[k]); f->is_text = true; f->text = sc->cmds[i].dyndep_text; }
  if (scenario_regenerates()) { VFile f; f.name = "build.ninja"; f.exists = true; f.mtime = 1; f.content = 1; f.is_text = false; g_tree->files.push_back(f); }
}
static std::vector<std::string> symbolic_targets(const Scenario* sc, const char* tag) {
  std::vector<std::string> menu = split_words(sc->targets), t;
  if (menu.size() == 1) return menu;
  for (size_t i = 0; i < menu.size(); i++) if (verif_bool(tag)) t.push_back(menu[i]);
  VERIF_ASSUME(!t.empty());
  return t;
}
// C01: after a successful invocation every requested target and everything it depends on equals the from-scratch build
static void assert_clean_equal(const std::vector<std::string>& targets, const char* msg) {
  std::vector<std::string> cl;
  for (size_t i = 0; i < targets.size(); i++) closure(targets[i], &cl);
  bool all = true;
  for (size_t i = 0; i < cl.size(); i++) {
    const RefEdge* e = ref_producer(cl[i]); if (!e || e->phony) continue;
    bool ok = true; long want = clean_content(cl[i], &ok); if (!ok) continue;
    VFile* f = g_tree->find(cl[i]);
    all = all && f && f->exists && f->content == want;
  }
  VERIF_ASSERT(all, msg);
}
// ---- C03 reference: which commands a build of `targets` has to run, by make semantics over contents ("was rewritten" propagates along non-order-only inputs)
struct MinRef {
  std::vector<int> state;        // per g_ref index: 0 unknown, 1 in progress, 2 does not run, 3 runs
  std::vector<std::string> flat_reads(const RefEdge& e) {   // reads with phony aliases replaced by what they stand for
    std::vector<std::string> out, todo = e.reads;
    for (size_t i = 0; i < todo.size() && i < 64; i++) { const RefEdge* p = ref_producer(todo[i]); if (p && p->phony) { for (size_t k = 0; k < p->reads.size(); k++) todo.push_back(p->reads[k]); } else out.push_back(todo[i]); }
    return out;
  }
  int index_of(const RefEdge* e) { return (int)(e - &g_ref[0]); }
  long cur(const std::string& f) { VFile* v = g_tree->find(f); return v && v->exists ? v->content : -1; }
  long val(const std::string& f) {      // content after the build
    int k = 0; const RefEdge* p = ref_producer(f, &k);
    if (!p || p->phony || !runs(index_of(p))) return cur(f);
    const CmdSpec* s = spec_for(p->outs[0]);
    if (s && s->dyndep_text && k == 0) { std::string t = s->dyndep_text; return (long)t.size() * 131 + (t.empty() ? 0 : (unsigned char)t[t.size() / 2]); }
    std::vector<long> in; for (size_t i = 0; i < p->reads.size(); i++) in.push_back(val(p->reads[i]));
    return mix(p->ordinal, k, in, p->flags, p->cmdh);
  }
  bool runs(int i) {
    if (state[i] >= 2) return state[i] == 3;
    if (state[i] == 1) return false;
    state[i] = 1;
    const RefEdge& e = g_ref[i]; bool r = false;
    if (e.phony) { state[i] = 2; return false; }
    const LastRun& last = e.ordinal < 16 ? g_last[e.ordinal] : g_last[15];
    for (size_t k = 0; k < e.outs.size(); k++) r = r || !g_tree->exists(e.outs[k]);
    if (!last.ran) r = true;
    if (!r && !e.generator && last.command != e.command) r = true;
    if (!r && !e.plain_depfile.empty() && !g_tree->exists(e.plain_depfile)) r = true;
    if (!r) {
      for (size_t q = 0; q < e.reads.size() && !r; q++) {
        std::vector<std::string> fl; { const RefEdge* p0 = ref_producer(e.reads[q]); if (p0 && p0->phony) { RefEdge tmp; tmp.reads.push_back(e.reads[q]); fl = flat_reads(tmp); } else fl.push_back(e.reads[q]); }
        for (size_t z = 0; z < fl.size() && !r; z++) {
          int k = 0; const RefEdge* p = ref_producer(fl[z], &k);
          if (p && !p->phony && runs(index_of(p))) { if (!(p->flags & KEEP_IF_SAME) || val(fl[z]) != cur(fl[z])) r = true; }
        }
        // a file that nobody rewrites now but that differs from what the command saw last time
        // (also when its producer runs now but, being restat-style, reproduces it: the file may have been rewritten by an earlier build that did not include this statement)
        const RefEdge* p1 = ref_producer(e.reads[q]);
        bool untouched_now = !p1 || (!p1->phony && (!runs(index_of(p1)) || ((p1->flags & KEEP_IF_SAME) && val(e.reads[q]) == cur(e.reads[q]))));
        if (!r && untouched_now && q < last.snap.size() && cur(e.reads[q]) != last.snap[q]) r = true;
      }
    }
    state[i] = r ? 3 : 2; return r;
  }
  std::vector<int> expected(const std::vector<std::string>& targets) {
    state.assign(g_ref.size(), 0);
    std::vector<std::string> cl; for (size_t i = 0; i < targets.size(); i++) closure(targets[i], &cl);
    std::vector<int> ex;
    for (size_t i = 0; i < g_ref.size(); i++) { bool needed = false; for (size_t k = 0; k < g_ref[i].outs.size(); k++) for (size_t c = 0; c < cl.size(); c++) needed = needed || cl[c] == g_ref[i].outs[k];
      if (needed && !g_ref[i].phony && runs((int)i)) ex.push_back(g_ref[i].ordinal); }
    return ex;
  }
};
static bool same_set(std::vector<int> a, std::vector<int> b) { if (a.size() != b.size()) return false; for (size_t i = 0; i < a.size(); i++) { bool f = false; for (size_t k = 0; k < b.size(); k++) f = f || a[i] == b[k]; if (!f) return false; } return true; }
static void edit_file(const std::string& name, int amount) { VFile* f = g_tree->get(name); if (f->exists && f->is_text) return;      /* (checked-in dyndep files are not edited) */ f->exists = true; f->is_text = false; f->content += amount; f->mtime = g_tree->tick(); }
static inline void edit_file(const std::string& name) { edit_file(name, 1); }
#endif

// tools.cc — the read-only tools, the cleaning tools and the log-maintenance tools of ninja.cc, entered through real_main(argv).
//   C19: -t commands / inputs / multi-inputs / query / targets / rules / graph / compdb / compdb-targets / deps / missingdeps
//        run no command, change no file and leave both logs byte-identical; the next real build runs exactly what it would have run;
//        what they print is true of the manifest (compared with the declared-input reference of kit.h)
//   C18: -t clean [-g] [targets] [-r rules] through ToolClean's own flag parsing, then a rebuild
//   C08: -t restat / -t recompact keep the meaning of the logs: the next build runs exactly what it would have run
#define VIA_MAIN
#include "scenarios.h"
#include "mainkit.h"

static void load_reference() { State st; SymDisk d; std::string err; ManifestParser p(&st, &d); if (p.Load("build.ninja", &err)) build_reference(&st); }
static std::string tree_snapshot() {
  std::string t; char buf[96];
  for (size_t i = 0; i < g_tree->files.size(); i++) { VFile& f = g_tree->files[i]; if (!f.exists || f.name == ".ninja_lock") continue; snprintf(buf, sizeof buf, "%ld/%ld;", (long)f.mtime, f.content); t += f.name + "=" + buf; }
  snprintf(buf, sizeof buf, "log=%lu deps=%lu", verif_file_hash(".ninja_log"), verif_file_hash(".ninja_deps")); t += buf;
  return t;
}
static std::vector<std::string> lines_of(const std::string& s) { std::vector<std::string> v; size_t p = 0; while (p < s.size()) { size_t e = s.find('\n', p); if (e == std::string::npos) e = s.size(); v.push_back(s.substr(p, e - p)); p = e + 1; } return v; }
static int index_of(const std::vector<std::string>& v, const std::string& x) { for (size_t i = 0; i < v.size(); i++) if (v[i] == x) return (int)i; return -1; }
static std::string plain_command(const RefEdge& e) { return e.command.substr(0, e.command.find(";rspfile=")); }
// statements reachable from the targets through inputs of every kind (what has to run for them from scratch), without validations
static void input_closure(const std::string& f, std::vector<int>* edges, std::vector<std::string>* seen) {
  if (index_of(*seen, f) >= 0) return; seen->push_back(f);
  const RefEdge* e = ref_producer(f); if (!e) return;
  int idx = (int)(e - &g_ref[0]); bool have = false; for (size_t i = 0; i < edges->size(); i++) have = have || (*edges)[i] == idx;
  // the live edge's declared inputs (before phony flattening the reference keeps aliases out; walk through them)
  for (size_t i = 0; i < e->reads.size() && i < e->ndeclared; i++) input_closure(e->reads[i], edges, seen);
  for (size_t i = 0; i < e->order_only.size(); i++) input_closure(e->order_only[i], edges, seen);
  if (!have) edges->push_back(idx);
}
// minimal JSON checker for compdb output: array of objects with string members; returns the decoded (key, value) pairs per object
static bool json_string(const std::string& s, size_t* p, std::string* out) {
  if (*p >= s.size() || s[*p] != '"') return false; (*p)++;
  while (*p < s.size() && s[*p] != '"') {
    unsigned char c = s[*p];
    if (c < 0x20) return false;
    if (c == '\\') { if (*p + 1 >= s.size()) return false; char e = s[*p + 1];
      if (e == 'u') { if (*p + 5 >= s.size()) return false; int v = 0; for (int k = 2; k < 6; k++) { char h = s[*p + k]; int d = h >= '0' && h <= '9' ? h - '0' : h >= 'a' && h <= 'f' ? h - 'a' + 10 : h >= 'A' && h <= 'F' ? h - 'A' + 10 : -1; if (d < 0) return false; v = v * 16 + d; } out->push_back((char)v); *p += 6; continue; }
      if (e == 'n') out->push_back('\n'); else if (e == 't') out->push_back('\t'); else if (e == 'r') out->push_back('\r'); else if (e == 'b') out->push_back('\b'); else if (e == 'f') out->push_back('\f'); else if (e == '\\' || e == '"' || e == '/') out->push_back(e); else return false;
      *p += 2; continue; }
    out->push_back((char)c); (*p)++;
  }
  if (*p >= s.size()) return false; (*p)++; return true;
}
static void skip_ws(const std::string& s, size_t* p) { while (*p < s.size() && (s[*p] == ' ' || s[*p] == '\n' || s[*p] == '\t' || s[*p] == '\r')) (*p)++; }
struct CompdbEntry { std::string directory, command, file, output; };
static bool parse_compdb(const std::string& s, std::vector<CompdbEntry>* out) {
  size_t p = 0; skip_ws(s, &p); if (p >= s.size() || s[p] != '[') return false; p++; skip_ws(s, &p);
  if (p < s.size() && s[p] == ']') { p++; skip_ws(s, &p); return p == s.size(); }
  for (;;) {
    skip_ws(s, &p); if (p >= s.size() || s[p] != '{') return false; p++; CompdbEntry e;
    for (;;) { skip_ws(s, &p); std::string k, v; if (!json_string(s, &p, &k)) return false; skip_ws(s, &p); if (p >= s.size() || s[p] != ':') return false; p++; skip_ws(s, &p); if (!json_string(s, &p, &v)) return false;
      if (k == "directory") e.directory = v; else if (k == "command") e.command = v; else if (k == "file") e.file = v; else if (k == "output") e.output = v; else return false;
      skip_ws(s, &p); if (p < s.size() && s[p] == ',') { p++; continue; } break; }
    skip_ws(s, &p); if (p >= s.size() || s[p] != '}') return false; p++; out->push_back(e);
    skip_ws(s, &p); if (p < s.size() && s[p] == ',') { p++; continue; } break;
  }
  skip_ws(s, &p); if (p >= s.size() || s[p] != ']') return false; p++; skip_ws(s, &p); return p == s.size();
}

enum { T_COMMANDS, T_COMMANDS_S, T_INPUTS, T_MULTI_INPUTS, T_QUERY, T_TARGETS_ALL, T_TARGETS_RULE, T_TARGETS_DEPTH, T_RULES, T_GRAPH, T_COMPDB, T_COMPDB_X, T_COMPDB_TARGETS, T_DEPS, T_MISSINGDEPS, T_RESTAT, T_RECOMPACT, T_DRYRUN, T_NTOOLS };

extern "C" int harness_main() {
  ir2c_global_ctors();
  const Scenario* sc = &kScenarios[SCENARIO];
  init_tree(sc);
  { InvocationOpts o; o.targets = split_words(sc->targets); o.run.parallelism = 1; InvocationResult r = invoke(o); VERIF_ASSERT(r.parsed && r.added && r.rc == 0, "set-up: the initial full build succeeds"); }
  // a reachable, partly out-of-date state: at most one source edited, at most one built file deleted
  std::vector<std::string> src = split_words(sc->sources);
  { int which = verif_choice("edit_one_source", (int)src.size() + 1); if (which > 0) edit_file(src[which - 1]); }
  { std::vector<std::string> outs; for (size_t i = 0; i < g_tree->files.size(); i++) { VFile& f = g_tree->files[i]; if (index_of(src, f.name) < 0 && f.exists && f.name != ".ninja_lock" && f.name != "build.ninja") outs.push_back(f.name); }
    int del = verif_choice("delete_output", (int)outs.size() + 1); if (del > 0) g_tree->remove(outs[del - 1]); }
  load_reference();
  std::vector<std::string> menu = split_words(sc->targets);
  std::string target = menu[menu.size() > 1 ? verif_choice("tool_target", (int)menu.size()) : 0];
  std::vector<std::string> targets; targets.push_back(target);
  std::string typed_target = verif_bool("target_spelled_noncanonically") ? "./" + target : target;      // C14: what the user types on the command line is canonicalised before it is looked up
#ifdef MODE_CLEANDEAD
  // ------------------------------------------------------------------------------------------------ C18: -t cleandead after statements were removed from the manifest
  (void)targets;
  g_manifest_variant = 1; load_reference();
  // (a former output that the new manifest uses as a source must still be there, or the new manifest cannot be built at all)
  for (size_t i = 0; i < g_ref.size(); i++) for (size_t k = 0; k < g_ref[i].reads.size(); k++) if (!ref_producer(g_ref[i].reads[k])) VERIF_ASSUME(g_tree->exists(g_ref[i].reads[k]));
  // (a dyndep file that has been deleted takes the part of the graph it describes with it: "appears nowhere in the graph" is only defined while the dyndep files exist)
  for (int i = 0; i < 10 && sc->cmds[i].out; i++) if (sc->cmds[i].dyndep_text) VERIF_ASSUME(g_tree->exists(sc->cmds[i].out));
  if (verif_bool("recompact_first")) { std::vector<std::string> a; a.push_back("-t"); a.push_back("recompact"); MainRun m0 = run_ninja(a); VERIF_ASSERT(m0.rc == 0, "C08: -t recompact succeeds"); verif_reach("recompacted"); }
  if (verif_bool("build_first")) { InvocationOpts o; o.targets = split_words(sc->targets); o.run.parallelism = 1; InvocationResult r = invoke(o); VERIF_ASSERT(r.added && r.rc == 0, "the build with the new manifest succeeds"); load_reference(); }
  // dead: recorded in the build log (an output of the old manifest) and appearing nowhere in the new graph
  std::vector<std::string> dead, alive;
  { State st; SymDisk d; std::string err; ManifestParser p(&st, &d); p.Load("build.ninja", &err);
    State st0; int v = g_manifest_variant; g_manifest_variant = 0; ManifestParser p0(&st0, &d); p0.Load("build.ninja", &err); g_manifest_variant = v;
    for (size_t i = 0; i < st0.edges_.size(); i++) { if (st0.edges_[i]->is_phony()) continue; for (size_t k = 0; k < st0.edges_[i]->outputs_.size(); k++) { const std::string& path = st0.edges_[i]->outputs_[k]->path();
      Node* n = st.LookupNode(path); bool in_graph = n && (n->in_edge() || !n->out_edges().empty()); if (!in_graph && g_tree->exists(path)) dead.push_back(path); } } }
  for (size_t i = 0; i < g_tree->files.size(); i++) if (g_tree->files[i].exists && index_of(dead, g_tree->files[i].name) < 0 && g_tree->files[i].name != ".ninja_lock") alive.push_back(g_tree->files[i].name);
  std::string before = tree_snapshot();
  { std::vector<std::string> a; a.push_back("-n"); a.push_back("-t"); a.push_back("cleandead"); MainRun m = run_ninja(a);
    VERIF_ASSERT(m.rc == 0 && before == tree_snapshot(), "C18: a dry-run cleandead removes nothing");
    bool all = true; for (size_t i = 0; i < dead.size(); i++) all = all && m.out.find("Remove " + dead[i] + "\n") != std::string::npos;
    VERIF_ASSERT(all, "C18: a dry-run cleandead reports every file recorded in the build log that no longer appears in the graph"); }
  { std::vector<std::string> a; a.push_back("-t"); a.push_back("cleandead"); MainRun m = run_ninja(a);
    VERIF_ASSERT(m.rc == 0 && m.sink.started.empty(), "C18: cleandead succeeds and runs no command");
    bool gone = true; for (size_t i = 0; i < dead.size(); i++) gone = gone && !g_tree->exists(dead[i]);
    VERIF_ASSERT(gone, "C18: cleandead removes every file recorded in the build log that no longer appears anywhere in the graph");
    bool kept = true; for (size_t i = 0; i < alive.size(); i++) kept = kept && g_tree->exists(alive[i]);
    VERIF_ASSERT(kept, "C18: cleandead removes nothing else (sources, current outputs, former outputs that are now inputs)"); }
  { InvocationOpts o; o.targets = split_words(sc->targets); o.run.parallelism = 1; InvocationResult r = invoke(o); VERIF_ASSERT(r.added && r.rc == 0, "C18: the build after cleandead succeeds"); load_reference();
    assert_clean_equal(o.targets, "C18: after cleandead a build brings the targets up to date"); }
  verif_reach(dead.empty() ? "nothing-dead" : "cleandead");
  return 0;
#elif defined(MODE_CLEAN)
  // ------------------------------------------------------------------------------------------------ C18 through ToolClean
  int mode = verif_choice("clean_mode", 4);       // all, all -g, target, -r rule
  std::vector<std::string> args; args.push_back("-t"); args.push_back("clean");
  bool dry = verif_bool("clean_dry_run"); if (dry) args.insert(args.begin(), "-n");
  std::string rule;
  if (mode == 1) args.push_back("-g");
  if (mode == 2) args.push_back(target);
  if (mode == 3) { const RefEdge* e = ref_producer(target); State st; SymDisk d; std::string err; ManifestParser p(&st, &d); p.Load("build.ninja", &err); Node* n = st.LookupNode(target); rule = n && n->in_edge() ? n->in_edge()->rule_->name() : "cc"; args.push_back("-r"); args.push_back(rule); (void)e; }
  // scope by the manual: outputs, depfile and rspfile of every non-phony statement (plain clean: not generator statements unless -g;
  // target: the statements the target transitively depends on through its inputs; rule: the statements using that rule)
  std::vector<std::string> scope;
  { State st; SymDisk d; std::string err; ManifestParser p(&st, &d); p.Load("build.ninja", &err);
    std::vector<int> want; std::vector<std::string> seen; if (mode == 2) input_closure(target, &want, &seen);
    for (size_t i = 0; i < st.edges_.size(); i++) { Edge* e = st.edges_[i]; if (e->is_phony()) continue;
      bool in_scope = mode == 0 ? !e->GetBindingBool("generator") : mode == 1 ? true : mode == 2 ? false : e->rule_->name() == rule;
      if (mode == 2) for (size_t k = 0; k < want.size(); k++) in_scope = in_scope || g_ref[want[k]].ordinal == (int)e->id_;
      if (!in_scope) continue;
      for (size_t k = 0; k < e->outputs_.size(); k++) scope.push_back(e->outputs_[k]->path());
      if (!e->GetUnescapedDepfile().empty()) scope.push_back(e->GetUnescapedDepfile());
      if (!e->GetUnescapedRspfile().empty()) scope.push_back(e->GetUnescapedRspfile()); } }
  std::vector<std::string> existed; for (size_t i = 0; i < g_tree->files.size(); i++) if (g_tree->files[i].exists) existed.push_back(g_tree->files[i].name);
  std::string before = tree_snapshot();
  MainRun m = run_ninja(args);
  VERIF_ASSERT(m.rc == 0, "C18: cleaning succeeds");
  VERIF_ASSERT(m.sink.started.empty(), "C18: cleaning runs no build command");
  bool only_scope = true, all_scope = true;
  for (size_t i = 0; i < existed.size(); i++) { bool now = g_tree->exists(existed[i]); bool in_scope = index_of(scope, existed[i]) >= 0;
    if (existed[i] == ".ninja_lock") continue;
    if (!now && !in_scope) only_scope = false;
    if (now && in_scope && !dry) all_scope = false; }
  VERIF_ASSERT(only_scope, "C18: cleaning deletes only outputs, depfiles and response files of the statements in its scope (never a source, a phony name or, without -g, a generator output)");
  VERIF_ASSERT(all_scope, "C18: every existing file in scope is removed");
  if (dry) { VERIF_ASSERT(before == tree_snapshot(), "C18: a dry-run clean removes nothing"); verif_reach("dry-run"); }
  { int nscope = 0; for (size_t i = 0; i < existed.size(); i++) if (index_of(scope, existed[i]) >= 0) nscope++; char exp[64]; snprintf(exp, sizeof exp, "%d files.", nscope);
    VERIF_ASSERT(m.out.find(exp) != std::string::npos, "C18: the number of files reported equals the number of existing files in scope"); }
  // a following build re-creates them
  { InvocationOpts o; o.targets = split_words(sc->targets); o.run.parallelism = 1; InvocationResult r = invoke(o);
    VERIF_ASSERT(r.added && r.rc == 0, "C18: the build after cleaning succeeds"); load_reference();
    assert_clean_equal(o.targets, "C18: a following build re-creates what was cleaned (the tree equals a from-scratch build)"); }
  verif_reach(mode == 0 ? "clean-all" : mode == 1 ? "clean-all-g" : mode == 2 ? "clean-target" : "clean-rule");
  return 0;
#else
  // ------------------------------------------------------------------------------------------------ C19 / C08
#ifdef ONLY_LOG_TOOLS
  int tool = verif_bool("log_tool_is_recompact") ? T_RECOMPACT : T_RESTAT;
#else
  int tool = verif_choice("tool", T_NTOOLS);
#endif
  std::vector<std::string> args; args.push_back("-t");
  switch (tool) {
    case T_COMMANDS: args.push_back("commands"); args.push_back(typed_target); break;
    case T_COMMANDS_S: args.push_back("commands"); args.push_back("-s"); args.push_back(typed_target); break;
    case T_INPUTS: args.push_back("inputs"); args.push_back(typed_target); break;
    case T_MULTI_INPUTS: args.push_back("multi-inputs"); args.push_back("-d"); args.push_back(";"); args.push_back(target); break;
    case T_QUERY: args.push_back("query"); args.push_back(typed_target); break;
    case T_TARGETS_ALL: args.push_back("targets"); args.push_back("all"); break;
    case T_TARGETS_RULE: args.push_back("targets"); args.push_back("rule"); args.push_back("cc"); break;
    case T_TARGETS_DEPTH: args.push_back("targets"); args.push_back("depth"); args.push_back("0"); break;
    case T_RULES: args.push_back("rules"); break;
    case T_GRAPH: args.push_back("graph"); args.push_back(target); break;
    case T_COMPDB: args.push_back("compdb"); break;
    case T_COMPDB_X: args.push_back("compdb"); args.push_back("-x"); args.push_back("link"); args.push_back("cc"); break;
    case T_COMPDB_TARGETS: args.push_back("compdb-targets"); args.push_back(typed_target); break;
    case T_DEPS: args.push_back("deps"); break;
    case T_MISSINGDEPS: args.push_back("missingdeps"); args.push_back(target); break;
    case T_RESTAT: args.push_back("restat"); break;
    case T_RECOMPACT: args.push_back("recompact"); break;
    default: args.clear(); args.push_back("-n"); args.push_back("-j"); args.push_back("2"); args.push_back(typed_target); break;
  }
  bool read_only = tool != T_RESTAT && tool != T_RECOMPACT;
  // control experiment: what the real build of the target does from this very state when no tool has run (then the state is put back)
  std::vector<int> expect;
  { Tree saved_tree = *g_tree; LastRun saved_last[16]; for (int i = 0; i < 16; i++) saved_last[i] = g_last[i]; verif_vfs_save(1);
    InvocationOpts o; o.targets = targets; o.run.parallelism = 1; InvocationResult r = invoke(o);
    VERIF_ASSERT(r.parsed && r.loaded && r.added && r.rc == 0, "set-up: the control build succeeds"); expect = r.started;
    *g_tree = saved_tree; for (int i = 0; i < 16; i++) g_last[i] = saved_last[i]; verif_vfs_restore(1); load_reference(); }
  std::string before = tree_snapshot();
  MainRun m = run_ninja(args);
  std::vector<std::string> L = lines_of(m.out);
  VERIF_ASSERT(m.sink.started.empty(), "C19: the tool executes no build command");
  if (read_only) VERIF_ASSERT(before == tree_snapshot(), "C19: the tool leaves every source, output, depfile and both logs unchanged");
  else { std::string a = tree_snapshot(); VERIF_ASSERT(before.substr(0, before.find("log=")) == a.substr(0, a.find("log=")), "C08: log maintenance touches no file but the logs"); }
  // (a dry run cannot get past a dyndep file that only the pretended command would have written)
  VERIF_ASSERT(m.rc == 0 || (tool == T_MISSINGDEPS && m.rc == 3) || (tool == T_DRYRUN && (m.err + m.out).find("loading '") != std::string::npos), "C19: the tool succeeds");
  verif_obs(m.rc); verif_obs((long)L.size());
  // ---- what the tool prints is true
  bool missing_validation_command = false;
  std::vector<int> need; std::vector<std::string> seen; input_closure(target, &need, &seen);
  if (tool == T_COMMANDS) {
    // every command a from-scratch build of the target has to run for the target itself, once, producers before consumers
    bool ok = true; int nonphony = 0;
    for (size_t i = 0; i < need.size(); i++) { const RefEdge& e = g_ref[need[i]]; if (e.phony) continue; nonphony++;
      int at = index_of(L, plain_command(e)); ok = ok && at >= 0;
      for (size_t q = 0; q < e.ndeclared && q < e.reads.size(); q++) { const RefEdge* p = ref_producer(e.reads[q]); if (p && !p->phony) { int pa = index_of(L, plain_command(*p)); ok = ok && pa >= 0 && pa < at; } }
      for (size_t q = 0; q < e.order_only.size(); q++) { const RefEdge* p = ref_producer(e.order_only[q]); if (p && !p->phony) { int pa = index_of(L, plain_command(*p)); ok = ok && pa >= 0 && pa < at; } } }
    VERIF_ASSERT(ok && (int)L.size() == nonphony, "C19: -t commands lists exactly the commands a from-scratch build of the target runs, in an order that respects dependencies");
    // ... including the validations a real build adds
    bool has_validation = false; std::vector<std::string> cl; closure(target, &cl);
    for (size_t i = 0; i < cl.size(); i++) { const RefEdge* e = ref_producer(cl[i]); if (e && !e->phony && index_of(L, plain_command(*e)) < 0) has_validation = true; }
    missing_validation_command = has_validation;      // asserted at the very end, so that the rest of this path is still checked
    verif_reach("commands");
  } else if (tool == T_COMMANDS_S) {
    const RefEdge* e = ref_producer(target); VERIF_ASSERT(e && (e->phony ? L.empty() : (L.size() == 1 && L[0] == plain_command(*e))), "C19: -t commands -s prints just the command of the target");
  } else if (tool == T_INPUTS || tool == T_MULTI_INPUTS) {
    // every file the target transitively depends on (all input kinds), phony aliases left out, each once, sorted
    std::vector<std::string> want; for (size_t i = 1; i < seen.size(); i++) { const RefEdge* p = ref_producer(seen[i]); if (!(p && p->phony)) want.push_back(seen[i]); }
    bool ok = L.size() == want.size(); for (size_t i = 0; i < want.size(); i++) ok = ok && index_of(L, tool == T_INPUTS ? want[i] : target + ";" + want[i]) >= 0;
    if (tool == T_INPUTS) for (size_t i = 0; i + 1 < L.size(); i++) ok = ok && L[i] < L[i + 1];
    VERIF_ASSERT(ok, "C19: -t inputs lists exactly the files the target transitively depends on");
    verif_reach("inputs");
  } else if (tool == T_QUERY) {
    const RefEdge* e = ref_producer(target); bool ok = !L.empty() && L[0] == target + ":";
    { State st; SymDisk d; std::string err; ManifestParser p(&st, &d); p.Load("build.ninja", &err); Node* n = st.LookupNode(target); Edge* ed = n ? n->in_edge() : NULL;
      for (size_t i = 0; ed && i < ed->inputs_.size(); i++) { std::string want = std::string("    ") + (ed->is_implicit(i) ? "| " : ed->is_order_only(i) ? "|| " : "") + ed->inputs_[i]->path(); ok = ok && index_of(L, want) >= 0; }
      for (size_t i = 0; n && i < n->out_edges().size(); i++) ok = ok && index_of(L, "    " + n->out_edges()[i]->outputs_[0]->path()) >= 0; }
    VERIF_ASSERT(e && ok, "C19: -t query names the statement's inputs with their kinds and the dependents of the target");
  } else if (tool == T_TARGETS_ALL) {
    bool ok = true; size_t nouts = 0; State st; SymDisk d; std::string err; ManifestParser p(&st, &d); p.Load("build.ninja", &err);
    for (size_t i = 0; i < st.edges_.size(); i++) for (size_t k = 0; k < st.edges_[i]->outputs_.size(); k++) { nouts++; ok = ok && index_of(L, st.edges_[i]->outputs_[k]->path() + ": " + st.edges_[i]->rule_->name()) >= 0; }
    VERIF_ASSERT(ok && L.size() == nouts, "C19: -t targets all lists every output with its rule");
  } else if (tool == T_COMPDB || tool == T_COMPDB_X || tool == T_COMPDB_TARGETS) {
    std::vector<CompdbEntry> es; bool valid = parse_compdb(m.out, &es);
    VERIF_ASSERT(valid, "C19: compdb output is valid JSON");
    bool ok = true; size_t expected_entries = 0;
    State st; SymDisk d; std::string err; ManifestParser p(&st, &d); p.Load("build.ninja", &err);
    for (size_t i = 0; i < st.edges_.size(); i++) { Edge* e = st.edges_[i]; if (e->inputs_.empty()) continue;
      bool listed = tool == T_COMPDB ? true : tool == T_COMPDB_X ? (e->rule_->name() == "link" || e->rule_->name() == "cc") : false;
      if (tool == T_COMPDB_TARGETS) { for (size_t k = 0; k < need.size(); k++) if (g_ref[need[k]].ordinal == (int)e->id_ && !e->is_phony()) listed = true; }
      bool validation_only = true; for (size_t k = 0; k < e->outputs_.size(); k++) if (e->outputs_[k]->validation_out_edges().empty() || !e->outputs_[k]->out_edges().empty()) validation_only = false;
      if (!listed || validation_only) continue;
      std::string cmd = e->EvaluateCommand();
      if (tool == T_COMPDB_X && !e->GetUnescapedRspfile().empty()) { std::string rc = e->GetBinding("rspfile_content"); for (size_t q = 0; q < rc.size(); q++) if (rc[q] == '\n') rc[q] = ' '; size_t at = cmd.find("@" + e->GetUnescapedRspfile()); if (at != std::string::npos) cmd.replace(at, e->GetUnescapedRspfile().size() + 1, rc); }
      for (size_t k = 0; k < e->inputs_.size(); k++) { expected_entries++; bool found = false;
        for (size_t q = 0; q < es.size(); q++) found = found || (es[q].file == e->inputs_[k]->path() && es[q].output == e->outputs_[0]->path() && es[q].command == cmd && !es[q].directory.empty());
        ok = ok && found; } }
    VERIF_ASSERT(ok && es.size() == expected_entries, "C19: compdb lists every input of every selected statement with its evaluated command");
    verif_reach("compdb");
  } else if (tool == T_DRYRUN && m.rc == 0) {
    bool all = true; int listed = 0;
    for (size_t i = 0; i < g_ref.size(); i++) { if (g_ref[i].phony) continue; bool shown = m.out.find("] " + plain_command(g_ref[i]) + "\n") != std::string::npos; if (shown) listed++; if (has_id(expect, g_ref[i].ordinal)) all = all && shown; }
    VERIF_ASSERT(all, "C19: -n lists every command the real build of the same target runs");
    bool has_restat = false; for (size_t i = 0; i < g_ref.size(); i++) has_restat = has_restat || (g_ref[i].flags & KEEP_IF_SAME);
    if (!has_restat) VERIF_ASSERT(listed == (int)expect.size(), "C19: without restat rules -n lists exactly the commands the real build runs");
    verif_reach("dry-run");
  }
  // ---- the next real build behaves as if the tool had not run
  { InvocationOpts o; o.targets = targets; o.run.parallelism = 1; InvocationResult r = invoke(o);
    VERIF_ASSERT(r.parsed && r.loaded && r.added && r.rc == 0, "C19: the build after the tool succeeds");
    VERIF_ASSERT(same_set(r.started, expect), read_only ? "C19: the next real build runs exactly what it would have run without the tool" : "C08: after -t restat / -t recompact the next build runs exactly what it would have run");
    assert_clean_equal(targets, "C19: ... and brings the target up to date");
    for (size_t i = 0; i < r.started.size(); i++) verif_obs(r.started[i]); }
  verif_reach(read_only ? "read-only-tool" : "log-tool");
  VERIF_ASSERT(!missing_validation_command, "C19: -t commands also lists the commands of the validations a real build of the target runs");
  return 0;
#endif
}

// C08: the build log survives torn writes, restarts, compaction and restat.
// Real code: BuildLog::{OpenForWrite,RecordCommand,Close,Load,LookupByOutput,Recompact,Restat,WriteEntry}, LineReader, ReplaceContent, rapidhash.
#define private public
#include "build_log.h"
#undef private
#include "disk_interface.h"
#include "eval_env.h"
#include "graph.h"
#include "state.h"
#include "util.h"
#include "verif.h"
#include <stdio.h>
#include <string.h>
#include <unistd.h>
#include <string>
#include <vector>
#ifndef VERIF_SEQS
#define VERIF_SEQS 2
#endif
#ifndef VERIF_MAXREC
#define VERIF_MAXREC 3
#endif
static const char* kLog = ".ninja_log";
// statements: e0 -> "sp ace.o" (a name with a space), e1 -> "m1" "m2" (two outputs), e2 -> "o"
static const char* kOuts[] = { "sp ace.o", "m1", "m2", "o" };
static State* g_state; static Edge* g_edges[3];
static void make_state() {
  State* st = new State; std::string err;
  for (int i = 0; i < 3; i++) {
    Rule* r = new Rule(i == 0 ? "r0" : i == 1 ? "r1" : "r2"); EvalString c; c.AddText(i == 0 ? "cc -c a.c" : i == 1 ? "gen m" : "ld o"); r->AddBinding("command", c);
    st->bindings_.AddRule(std::unique_ptr<const Rule>(r));
    Edge* e = st->AddEdge(r); st->AddIn(e, "in", 0);
    if (i == 0) st->AddOut(e, kOuts[0], 0, &err); else if (i == 1) { st->AddOut(e, kOuts[1], 0, &err); st->AddOut(e, kOuts[2], 0, &err); } else st->AddOut(e, kOuts[3], 0, &err);
    g_edges[i] = e;
  }
  g_state = st;
}
static int edge_of_output(int o) { return o == 0 ? 0 : o == 3 ? 2 : 1; }
static uint64_t true_hash(int o) { return BuildLog::LogEntry::HashCommand(g_edges[edge_of_output(o)]->EvaluateCommand(true)); }
struct Rec { int edge, start, end; long mtime; };
struct Line { long end_offset; int out; Rec r; };
struct NoDead : public BuildLogUser { int dead; NoDead() : dead(-1) {} bool IsPathDead(StringPiece s) const override { return dead >= 0 && s == kOuts[dead]; } };
struct StatDisk : public DiskInterface {
  TimeStamp Stat(const std::string& path, std::string*) const override { for (int i = 0; i < 4; i++) if (path == kOuts[i]) return 100 + i; return 0; }
  bool WriteFile(const std::string&, const std::string&, bool) override { return true; } bool MakeDir(const std::string&) override { return true; }
  Status ReadFile(const std::string&, std::string*, std::string* err) override { *err = "no"; return NotFound; } int RemoveFile(const std::string&) override { return 0; }
};
// expectation: per output the last complete record (mtime < 0: none)
struct Model { bool have[4]; Rec r[4]; Model() { for (int i = 0; i < 4; i++) have[i] = false; } };
static bool entry_is(BuildLog::LogEntry* e, const Rec& r, int o) { return e && e->start_time == r.start && e->end_time == r.end && e->mtime == r.mtime && e->command_hash == true_hash(o); }
static void check_exact(BuildLog* log, const Model& m, const char* msg) {
  bool ok = true;
  for (int o = 0; o < 4; o++) { BuildLog::LogEntry* e = log->LookupByOutput(kOuts[o]); ok = ok && (m.have[o] ? entry_is(e, m.r[o], o) : e == NULL); }
  VERIF_ASSERT(ok, msg);
}

#if defined(MODE_VERSION)
// a log of an unsupported version is discarded with a message (which makes everything rebuild); a supported one is read
extern "C" int harness_main() {
  ir2c_global_ctors();
  int v = (int)verif_nondet("version", 1, 12);
  char text[128]; snprintf(text, sizeof text, "# ninja log v%d\n1\t2\t3\tout\tabc\n", v);
  FILE* f = fopen(kLog, "wb"); fwrite(text, 1, strlen(text), f); fclose(f);
  BuildLog log; std::string err;
  LoadStatus ls = log.Load(kLog, &err);
  VERIF_ASSERT(ls != LOAD_ERROR, "C08: a log of any version never makes loading fail");
  if (ls == LOAD_NOT_FOUND) {
    VERIF_ASSERT(!err.empty() && log.entries().empty() && verif_file_size(kLog) == (unsigned long)-1, "C08: a log of an unsupported version is discarded with a warning and removed");
    verif_reach("discarded");
  } else {
    VERIF_ASSERT(log.LookupByOutput("out") != NULL && log.LookupByOutput("out")->command_hash == 0xabc, "C08: a log of a supported version is read");
    verif_reach("read");
  }
  verif_obs((long)ls);
  return 0;
}
#elif defined(MODE_LONGNAMES)
// records whose output names are long (around every power-of-two-ish buffer size a writer might use, and beyond the reader's line buffer granularity), written by the real
// writer: what one session wrote, the next reads back, appends to, recompacts or restats without losing or merging a record
extern "C" int harness_main() {
  ir2c_global_ctors();
  static const int kLens[] = { 1, 60, 250, 251, 252, 253, 254, 255, 256, 257, 500, 506, 507, 508, 509, 510, 511, 512, 513, 990, 1000, 1002, 1003, 1004, 1005, 1006, 1007, 1008, 1009, 1010, 1011, 1012, 1013, 1014, 1015, 1016, 1017, 1018, 1019, 1020, 1021, 1022, 1023, 1024, 1025, 1026,
                               2040, 2047, 2048, 2049, 4080, 4090, 4095, 4096, 4097, 8190, 8192, 16384, 65536, 65537,
                               262100, 262143, 262144, 262145, 300000 };      // (one record line longer than the reader's 256 KiB buffer: LineReader hands it out in pieces)
  int L = kLens[verif_concretize(verif_nondet("name_length", 0, (long)(sizeof kLens / sizeof kLens[0]) - 1))];
  State st; std::string err; Edge* ed[3]; std::string names[3];
  names[0] = std::string((size_t)L, 'a'); names[1] = "mid"; names[2] = std::string((size_t)L + 1, 'c');
  for (int i = 0; i < 3; i++) { Rule* r = new Rule(i == 0 ? "r0" : i == 1 ? "r1" : "r2"); EvalString c; c.AddText(i == 0 ? "cc a" : i == 1 ? "cc b" : "cc c"); r->AddBinding("command", c); st.bindings_.AddRule(std::unique_ptr<const Rule>(r));
    ed[i] = st.AddEdge(r); st.AddIn(ed[i], "in", 0); st.AddOut(ed[i], names[i], 0, &err); }
  struct Exp { int start, end; long mtime; } ex[3];
  NoDead user;
  { BuildLog log; VERIF_ASSERT(log.OpenForWrite(kLog, user, &err), "C08: open for write");
    static const int kOrder[] = { 0, 1, 2, 1 };
    for (int k = 0; k < 4; k++) { int i = kOrder[k]; ex[i].start = 10 * k; ex[i].end = 10 * k + 5; ex[i].mtime = 100 + k; VERIF_ASSERT(log.RecordCommand(ed[i], ex[i].start, ex[i].end, ex[i].mtime), "C08: RecordCommand succeeds"); }
    log.Close(); }
  int cont = verif_choice("continuation", 4);       // reload / append then reload / recompact / restat
  bool long_read_back = true, long_kept = true;       // (asserted last: KF-C08-1 must not hide what happens to the other records afterwards)
  { BuildLog log; VERIF_ASSERT(log.Load(kLog, &err) == LOAD_SUCCESS, "C08: the log written by the previous session loads");
    // (records whose line may exceed the reader's 256 KiB line buffer are asserted separately: KF-C08-1)
    bool ok = true, ok_long = true; size_t present = 0; for (int i = 0; i < 3; i++) { BuildLog::LogEntry* e = log.LookupByOutput(names[i]); present += e ? 1 : 0; bool good = e && e->start_time == ex[i].start && e->end_time == ex[i].end && e->mtime == ex[i].mtime && e->command_hash == BuildLog::LogEntry::HashCommand(ed[i]->EvaluateCommand(true)); if (names[i].size() >= 262000) ok_long = ok_long && good; else ok = ok && good; }
    VERIF_ASSERT(ok && log.entries().size() == present, "C08: every record written by a session is read back, whatever the length of its output name, the last record per output winning");
    long_read_back = ok_long;
    if (cont == 1) { VERIF_ASSERT(log.OpenForWrite(kLog, user, &err), "C08: open for append"); ex[0].start = 77; ex[0].end = 78; ex[0].mtime = 177; VERIF_ASSERT(log.RecordCommand(ed[0], 77, 78, 177), "C08: RecordCommand succeeds"); ex[1].start = 79; ex[1].end = 80; ex[1].mtime = 178; VERIF_ASSERT(log.RecordCommand(ed[1], 79, 80, 178), "C08: RecordCommand succeeds"); log.Close(); verif_reach("appended"); }
    else if (cont == 2) { VERIF_ASSERT(log.Recompact(kLog, user, &err), "C08: recompaction succeeds"); verif_reach("recompacted"); }
    else if (cont == 3) { struct D : public StatDisk { TimeStamp Stat(const std::string& path, std::string*) const override { return path == "mid" ? 555 : 444; } } d; VERIF_ASSERT(log.Restat(kLog, d, 0, NULL, &err), "C08: restat succeeds"); ex[0].mtime = 444; ex[1].mtime = 555; ex[2].mtime = 444; verif_reach("restatted"); }
    else verif_reach("reloaded"); }
  { BuildLog log; VERIF_ASSERT(log.Load(kLog, &err) == LOAD_SUCCESS, "C08: the log loads after the continuation");
    bool ok = true, ok_long = true; size_t present = 0; for (int i = 0; i < 3; i++) { BuildLog::LogEntry* e = log.LookupByOutput(names[i]); present += e ? 1 : 0; bool good = e && e->start_time == ex[i].start && e->end_time == ex[i].end && e->mtime == ex[i].mtime && e->command_hash == BuildLog::LogEntry::HashCommand(ed[i]->EvaluateCommand(true)); if (names[i].size() >= 262000) ok_long = ok_long && good; else ok = ok && good; }
    VERIF_ASSERT(ok && log.entries().size() == present, "C08: appending, recompaction and restat keep the latest record of every output (long output names)");
    long_kept = ok_long;
    verif_obs((long)log.entries().size()); }
  VERIF_ASSERT(long_read_back, "C08: a record whose line is longer than the reader's 256 KiB buffer is read back like any other");
  VERIF_ASSERT(long_kept, "C08: a record whose line is longer than the reader's 256 KiB buffer survives appending, recompaction and restat");
  return 0;
}
#elif defined(MODE_LONG)
// a log larger than the reader's 256 KiB buffer, with very long output names, so that lines straddle buffer refills: every line must be read
extern "C" int harness_main() {
  ir2c_global_ctors();
  std::string body = "# ninja log v7\n"; std::vector<std::string> names; std::vector<long> mt;
  // the alignment of the short tail records relative to the 256 KiB refill boundary is symbolic (made concrete here: sizes drive every loop)
  int step = (int)verif_concretize(verif_nondet("alignment_step", 0, VERIF_ALIGNMENTS - 1));
  int pad = 262144 - 27 - 130 + step * (130 / VERIF_ALIGNMENTS);
  for (int i = 0; i < 3; i++) {
    std::string name(i == 0 ? (size_t)pad : i == 1 ? 40 : 12, (char)('a' + i)); names.push_back(name); mt.push_back(10 + i);
    char num[64]; snprintf(num, sizeof num, "%d\t%d\t%d\t", i, i + 1, 10 + i); body += num; body += name; body += "\t"; snprintf(num, sizeof num, "%x\n", 0x100 + i); body += num;
  }
  names.push_back(names[2]); mt.push_back(mt[2]);
  // the second record again with a newer mtime: the last record must win
  { char num[64]; snprintf(num, sizeof num, "7\t8\t99\t"); body += num; body += names[1]; body += "\t101\n"; mt[1] = 99; }
  FILE* f = fopen(kLog, "wb"); fwrite(body.data(), 1, body.size(), f); fclose(f);
  BuildLog log; std::string err;
  VERIF_ASSERT(log.Load(kLog, &err) == LOAD_SUCCESS, "C08: a large log loads");
  bool ok = true;
  for (int i = 0; i < 4; i++) { BuildLog::LogEntry* e = log.LookupByOutput(names[i]); ok = ok && e && e->mtime == mt[i]; }
  VERIF_ASSERT(ok, "C08: every complete line of a log larger than the read buffer is loaded, the last record per output winning");
  verif_reach("long-loaded");
  verif_obs((long)log.entries().size());
  return 0;
}
#elif defined(MODE_RECOMPACT_CRASH)
// a session that recompacts (or restats) the log and is killed right after a symbolic persistence event (temporary file, its flushes, the
// rename): the next load must find every record of the earlier sessions, whichever of the two files survived
extern "C" int harness_main() {
  ir2c_global_ctors();
  make_state();
  std::string err; NoDead user; Model m;
  {
    static const Rec kSeq[] = { {0, 1, 2, 3}, {1, 2, 5, 7}, {0, 6, 8, 9}, {2, 9, 10, 11}, {1, 12, 13, 14} };
    int n = (int)verif_nondet("records", 1, 5);
    BuildLog log; VERIF_ASSERT(log.OpenForWrite(kLog, user, &err), "C08: open for write");
    for (int i = 0; i < n; i++) { Rec r = kSeq[i]; VERIF_ASSERT(log.RecordCommand(g_edges[r.edge], r.start, r.end, r.mtime), "C08: RecordCommand succeeds");
      for (int o = 0; o < 4; o++) if (edge_of_output(o) == r.edge) { m.have[o] = true; m.r[o] = r; } }
    log.Close();
  }
  bool restat = verif_bool("killed_session_runs_restat");
  {
    BuildLog log; VERIF_ASSERT(log.Load(kLog, &err) == LOAD_SUCCESS, "C08: load before recompaction");
    verif_vfs_die_after(verif_nondet("die_after_event", 0, VERIF_MAX_EVENTS));
    if (restat) { StatDisk disk; log.Restat(kLog, disk, 0, NULL, &err); } else log.Recompact(kLog, user, &err);
    verif_reach(verif_vfs_frozen() ? "killed" : "completed");
    verif_vfs_freeze(0);
  }
  {
    BuildLog log; err.clear();
    LoadStatus ls = log.Load(kLog, &err);
    VERIF_ASSERT(ls == LOAD_SUCCESS, "C08: after a killed recompaction or restat the log is still there and loads");
    // restat may have replaced the recorded mtimes by the files' current ones (100 + output index) - for all outputs or none
    bool ok_old = true, ok_new = true;
    for (int o = 0; o < 4; o++) { BuildLog::LogEntry* e = log.LookupByOutput(kOuts[o]);
      if (!m.have[o]) { ok_old = ok_old && e == NULL; ok_new = ok_new && e == NULL; continue; }
      ok_old = ok_old && entry_is(e, m.r[o], o);
      Rec rn = m.r[o]; rn.mtime = 100 + o; ok_new = ok_new && entry_is(e, rn, o); }
    VERIF_ASSERT(ok_old || (restat && ok_new), "C08: a killed recompaction or restat loses no record: the log holds either the old or the completely rewritten content");
    // and the session after that appends and reloads as usual
    VERIF_ASSERT(log.OpenForWrite(kLog, user, &err), "C08: open for append");
    Rec extra = { 2, 20, 21, 22 }; VERIF_ASSERT(log.RecordCommand(g_edges[2], extra.start, extra.end, extra.mtime), "C08: RecordCommand succeeds"); log.Close();
    BuildLog log2; VERIF_ASSERT(log2.Load(kLog, &err) == LOAD_SUCCESS && entry_is(log2.LookupByOutput(kOuts[3]), extra, 3), "C08: what is recorded after the killed session is read back");
  }
  verif_reach("done"); verif_obs((long)verif_file_size(kLog));
  return 0;
}
#else
extern "C" int harness_main() {
  ir2c_global_ctors();
  make_state();
  std::string err; NoDead user;
  std::vector<Line> lines;
  {
    static const Rec kSeq[][4] = { { {0, 1, 2, 3}, {1, 2, 5, 7}, {0, 6, 8, 9}, {2, 9, 10, 1099511627776L} },
                                   { {1, 0, 0, 0}, {2, 3, 4, 5}, {1, 5, 6, 11}, {0, 7, 70, 700} } };
    int seq = verif_choice("sequence", VERIF_SEQS); int n = (int)verif_nondet("records", 1, VERIF_MAXREC);
    BuildLog log;
    VERIF_ASSERT(log.OpenForWrite(kLog, user, &err), "C08: open for write");
    for (int i = 0; i < n; i++) {
      Rec r = kSeq[seq][i];
      VERIF_ASSERT(log.RecordCommand(g_edges[r.edge], r.start, r.end, r.mtime), "C08: RecordCommand succeeds");
      // one line per output was appended; their end offsets are reconstructed from the lengths (the file only grows)
      Edge* e = g_edges[r.edge];
      for (size_t k = 0; k < e->outputs_.size(); k++) { Line l; l.r = r; l.out = r.edge == 0 ? 0 : r.edge == 2 ? 3 : 1 + (int)k; l.end_offset = -1; lines.push_back(l); }
    }
    log.Close();
  }
  // line end offsets from the bytes on disk
  {
    FILE* f = fopen(kLog, "rb"); long off = 0; int c; size_t li = 0; bool header = true;
    while ((c = fgetc(f)) != EOF) { off++; if (c == '\n') { if (header) header = false; else if (li < lines.size()) lines[li++].end_offset = off; } }
    fclose(f);
    VERIF_ASSERT(li == lines.size(), "C08: one line per output was written");
  }
  long full = (long)verif_file_size(kLog);
  long header_len = (long)strlen("# ninja log v7\n");
  long cut = verif_nondet("cut", 0, full);
  VERIF_ASSERT(truncate(kLog, cut) == 0, "truncate");
  Model m; bool at_boundary = cut == header_len || cut == 0;
  for (size_t i = 0; i < lines.size(); i++) if (lines[i].end_offset <= cut) { m.have[lines[i].out] = true; m.r[lines[i].out] = lines[i].r; if (lines[i].end_offset == cut) at_boundary = true; }
  verif_reach(cut == full ? "tear-none" : "tear-some");
  int cont = verif_choice("continuation", 4);        // 0 reload, 1 append then reload, 2 recompact then reload, 3 restat then reload
  {
    BuildLog log; err.clear();
    LoadStatus ls = log.Load(kLog, &err);
    VERIF_ASSERT(ls != LOAD_ERROR, "C08: loading a torn log never fails");
    if (cut >= header_len) check_exact(&log, m, "C08: loading yields exactly the completely written records, the last record per output winning");
    else if (cut > 0) { VERIF_ASSERT(ls == LOAD_NOT_FOUND || log.entries().empty(), "C08: a log torn inside its header holds nothing"); m = Model(); }
    else m = Model();
    // ninja only recompacts / restats a log it has just loaded successfully (ToolRestat returns early on LOAD_NOT_FOUND, needs_recompaction_ is set by Load)
    if (ls != LOAD_SUCCESS && cont >= 2) cont = 0;
    if (cont == 1) {
      int x = verif_choice("append_edge", 3); Rec r; r.edge = x; r.start = 20; r.end = 21; r.mtime = 50;
      VERIF_ASSERT(log.OpenForWrite(kLog, user, &err), "C08: open for append");
      VERIF_ASSERT(log.RecordCommand(g_edges[x], r.start, r.end, r.mtime), "C08: append succeeds");
      log.Close();
      BuildLog log2; err.clear();
      VERIF_ASSERT(log2.Load(kLog, &err) != LOAD_ERROR, "C08: the log loads after appending behind a torn tail");
      bool safe = true, kept = true;
      for (int o = 0; o < 4; o++) {
        BuildLog::LogEntry* e = log2.LookupByOutput(kOuts[o]);
        bool is_new = edge_of_output(o) == x;
        // a damaged or merged line may lose a record, it must never make an output look up to date: an entry carrying the true command hash
        // must be a completely written record of that output
        // (the start/end times of a merged line may be mangled; what decides dirtiness is the pair command hash, mtime)
        if (e && e->command_hash == true_hash(o)) safe = safe && ((m.have[o] && e->mtime == m.r[o].mtime) || (is_new && e->mtime == r.mtime));
        if (at_boundary && cut >= header_len) kept = kept && (is_new ? entry_is(e, r, o) : (m.have[o] ? entry_is(e, m.r[o], o) : e == NULL));
      }
      VERIF_ASSERT(safe, "C08: a damaged or merged line never makes an output look up to date");
      VERIF_ASSERT(kept, "C08: appending after a clean prefix keeps every record and adds the new one");
      verif_reach("appended");
    } else if (cont == 2) {
      int dead = verif_choice("dead_output", 5) - 1; user.dead = dead;
      VERIF_ASSERT(log.Recompact(kLog, user, &err), "C08: recompaction succeeds");
      if (dead >= 0) m.have[dead] = false;
      BuildLog log2; err.clear();
      VERIF_ASSERT(log2.Load(kLog, &err) != LOAD_ERROR && err.empty(), "C08: the recompacted log loads cleanly");
      if (cut >= header_len || cut == 0) check_exact(&log2, m, "C08: recompaction keeps the latest record of every live output and drops dead ones");
      verif_reach("recompacted");
    } else if (cont == 3) {
      StatDisk disk; int only = verif_choice("restat_only", 5) - 1;       // -1: all outputs
      char* names[1]; char buf[16]; if (only >= 0) { strcpy(buf, kOuts[only]); names[0] = buf; }
      VERIF_ASSERT(log.Restat(kLog, disk, only >= 0 ? 1 : 0, names, &err), "C08: restat succeeds");
      for (int o = 0; o < 4; o++) if (m.have[o] && (only < 0 || only == o)) m.r[o].mtime = 100 + o;
      BuildLog log2; err.clear();
      VERIF_ASSERT(log2.Load(kLog, &err) != LOAD_ERROR && err.empty(), "C08: the restatted log loads cleanly");
      if (cut >= header_len || cut == 0) check_exact(&log2, m, "C08: restat changes only the recorded mtimes of the selected outputs");
      verif_reach("restatted");
    } else verif_reach("reloaded");
  }
  verif_obs((long)verif_file_size(kLog));
  return 0;
}
#endif

// osmodel.h — the operating system under ninja's *real* process layer (src/subprocess-posix.cc, src/real_command_runner.cc,
// src/jobserver-posix.cc): pipes, posix_spawn, ppoll, read, waitpid, kill, signals and a jobserver FIFO, as far as ninja uses them.
// With this header the cut point moves from CommandRunner down to the system-call boundary: RealCommandRunner, SubprocessSet,
// Subprocess and PosixJobserverClient are executed symbolically like the rest of ninja.  What a command *does* (which files it reads
// and writes) is the same content model as SymRunner in kit.h; *how it behaves as a process* is symbolic here: when it writes which part
// of its output, when it exits, with which status or signal, whether the SIGCHLD interrupts the poll before the pipe event is seen,
// which interrupt signal arrives when, how many tokens the jobserver FIFO holds.
// In the IR module these definitions simply are the libc functions; natively they are linked with -Wl,--wrap=<fn> and model
// descriptors are real placeholder descriptors, everything else is passed through to libc.
#ifndef VERIF_OSMODEL_H_
#define VERIF_OSMODEL_H_
#include <errno.h>
#include <fcntl.h>
#include <poll.h>
#include <signal.h>
#include <spawn.h>
#include <stdarg.h>
#include <sys/stat.h>
#include <sys/wait.h>
#include <unistd.h>
#include "kit.h"
#ifdef VERIF_NATIVE
#define OSFN(x) __wrap_##x
#define OSREAL(x) __real_##x
#else
#define OSFN(x) x
#endif

struct OsPipe { std::string data; bool w_open, r_open, child_w; int r_fd, w_fd; bool writers() const { return w_open || child_w; } };     // w_open: ninja's own copy of the write end; child_w: the copy the spawned command holds until it exits
struct OsProc {
  int pid; bool console; int pipe; int ref;             // index into g_ref
  std::vector<long> snap; bool missing_input; int flags; long cmdh;
  bool will_fail; bool fail_event_pending = false; std::string to_write; bool split;                     // output still to be written; written in two parts or at once
  bool exited, reaped, lingering; int wstatus; bool own_pgroup, stdin_null, out_on_pipe; int killed_by; long stdout_len_at_start;
};
struct OsWorld {
  std::vector<OsPipe> pipes; std::vector<OsProc> procs; int next_pid;
  int fifo_tokens; bool fifo_exists; std::vector<unsigned char> fifo; int fifo_r, fifo_w; int fifo_taken, fifo_returned;
  void (*h_int)(int); void (*h_term)(int); void (*h_hup)(int); void (*h_chld)(int, siginfo_t*, void*); bool handlers_installed;
  int pending_signal; bool sigchld_first; int interrupts_left; int open_fds;
  int external_tokens_left; bool told_token_available; bool fifo_read_tried;      // another jobserver client may put a token back while ninja waits
  // spawn description being assembled by posix_spawn_file_actions_* / posix_spawnattr_*
  int fa_dup_to_1, fa_dup_to_2; bool fa_stdin_null; std::vector<int> fa_close; short at_flags; bool at_sigmask;
  OsWorld() : next_pid(100), fifo_tokens(-1), fifo_exists(false), fifo_r(-1), fifo_w(-1), fifo_taken(0), fifo_returned(0), h_int(0), h_term(0), h_hup(0), h_chld(0), handlers_installed(false),
              pending_signal(0), sigchld_first(false), interrupts_left(0), open_fds(0), external_tokens_left(0), told_token_available(false), fifo_read_tried(false), fa_dup_to_1(-1), fa_dup_to_2(-1), fa_stdin_null(false), at_flags(0), at_sigmask(false) {}
};
static OsWorld* g_os;
static double g_os_load; static double g_os_last_reported_load;
static RunnerOpts g_os_opts;
static const char* kFifoPath = "/verif.jobs.fifo";

// ---- descriptors: natively real placeholder descriptors (so that fcntl/close of libc keep working), in the engine small integers
extern "C" {
#ifdef VERIF_NATIVE
int OSREAL(open)(const char*, int, ...); int OSREAL(close)(int); ssize_t OSREAL(read)(int, void*, size_t); ssize_t OSREAL(write)(int, const void*, size_t);
int OSREAL(fstat)(int, struct stat*); int OSREAL(kill)(pid_t, int); pid_t OSREAL(waitpid)(pid_t, int*, int);
static int os_new_fd() { return OSREAL(open)("/dev/null", O_RDONLY); }
#else
static int g_os_fd_counter = 10;
static int os_new_fd() { return g_os_fd_counter++; }
#endif
}
static OsPipe* os_pipe_of(int fd, bool* is_w) {
  if (!g_os) return NULL;
  for (size_t i = 0; i < g_os->pipes.size(); i++) { OsPipe& p = g_os->pipes[i]; if (p.r_open && p.r_fd == fd) { *is_w = false; return &p; } if (p.w_open && p.w_fd == fd) { *is_w = true; return &p; } }
  return NULL;
}
static OsProc* os_proc(int pid) { for (size_t i = 0; g_os && i < g_os->procs.size(); i++) if (g_os->procs[i].pid == pid) return &g_os->procs[i]; return NULL; }
static int os_running() { int n = 0; for (size_t i = 0; i < g_os->procs.size(); i++) if (!g_os->procs[i].exited) n++; return n; }

// ---- what a command does when it ends (the content model of SymRunner::WaitForCommand, over the reference view)
static void os_sink_event(const std::string& e) { if (g_sink) g_sink->events.push_back(e); }
static void os_proc_exit(OsProc& p) {
  const RefEdge& e = g_ref[p.ref]; int ord = e.ordinal;
  p.exited = true;
  if (p.pipe >= 0) { OsPipe& pp = g_os->pipes[p.pipe]; pp.data += p.to_write; p.to_write.clear(); pp.child_w = false; }
  if (p.killed_by) { p.wstatus = p.killed_by; return; }            // terminated by the signal ninja sent: nothing written
  bool fail = p.will_fail;
  if (g_dead) { p.wstatus = 0; return; }
  if (fail) {
    int code = 1; if (g_os_opts.sym_exit_code) code = sym_exit_code();
    bool by_signal = g_os_opts.sym_exit_code && verif_bool("command_dies_by_signal");
    if (by_signal) { int sig = verif_bool("signal_is_segv") ? SIGSEGV : SIGKILL; p.wstatus = sig; code = 128 + sig; } else p.wstatus = code << 8;
    if (g_sink) { g_sink->failed.push_back(ord); g_sink->exit_codes.push_back(code); } p.fail_event_pending = true;      // ("fail X" is logged when ninja collects the status: until then it cannot know, and may rightly start more work)
    if (g_os_opts.failed_touch && verif_bool("failed_command_touched_outputs")) for (size_t k = 0; k < e.outs.size(); k++) g_tree->write(e.outs[k], -7 - (long)k);
    return;
  }
  p.wstatus = 0;
  const CmdSpec* s = spec_for(e.outs[0]);
  for (size_t k = 0; k < e.outs.size(); k++) {
    const std::string& path = e.outs[k];
    if (s && s->dyndep_text && k == 0) { VFile* f = g_tree->find(path); std::string text = (g_dyndep_override && path == g_dyndep_override_out) ? *g_dyndep_override : std::string(s->dyndep_text);
      if (!((p.flags & KEEP_IF_SAME) && f && f->exists && f->is_text && f->text == text)) g_tree->write_text(path, text); continue; }
    long c = mix(ord, (int)k, p.snap, p.flags, p.cmdh); VFile* f = g_tree->find(path);
    if ((p.flags & KEEP_IF_SAME) && f && f->exists && !f->is_text && f->content == c) continue;
    g_tree->write(path, c);
  }
  if (p.flags & REGEN_MANIFEST) g_manifest_variant = regen_variant();
  if (p.flags & RUNS_RESTAT_TOOL) run_restat_tool_from_command();
  if (!e.depfile.empty()) { std::string t = e.outs[0] + ":"; for (size_t q = 0; q < e.reads.size(); q++) t += ((p.flags & NONCANONICAL_DEPFILE) && q >= e.ndeclared ? " ./" : " ") + e.reads[q]; t += "\n"; g_tree->write_text(e.depfile, t); }
  if (ord < 16) { g_last[ord].ran = true; g_last[ord].snap = p.snap; g_last[ord].command = e.command; }
  if (g_sink) g_sink->finished_ok.push_back(ord); os_sink_event("ok " + e.outs[0]);
}

extern "C" {
// ------------------------------------------------------------------------------------------------ pipes and descriptors
int OSFN(pipe)(int fds[2]) {
  OsPipe p; p.w_open = p.r_open = true; p.child_w = false; p.r_fd = os_new_fd(); p.w_fd = os_new_fd(); g_os->pipes.push_back(p); g_os->open_fds += 2;
  fds[0] = p.r_fd; fds[1] = p.w_fd; return 0;
}
int OSFN(close)(int fd) {
  bool w; OsPipe* p = os_pipe_of(fd, &w);
  if (p) { if (w) p->w_open = false; else p->r_open = false; g_os->open_fds--; }
  else if (g_os && fd >= 0 && fd == g_os->fifo_r) { g_os->fifo_r = -1; g_os->open_fds--; }
  else if (g_os && fd >= 0 && fd == g_os->fifo_w) { g_os->fifo_w = -1; g_os->open_fds--; }
#ifdef VERIF_NATIVE
  return OSREAL(close)(fd);
#else
  else VERIF_ASSERT(false, "C06: close() of a descriptor ninja does not own");
  return 0;
#endif
}
ssize_t OSFN(read)(int fd, void* buf, size_t n) {
  bool w; OsPipe* p = os_pipe_of(fd, &w);
  if (p && !w) {
    if (p->data.empty()) { VERIF_ASSERT(!p->writers(), "C06: ninja reads a command's pipe only when poll reported it ready (a blocking read would hang the build)"); return 0; }
    size_t k = p->data.size() < n ? p->data.size() : n; memcpy(buf, p->data.data(), k); p->data.erase(0, k); return (ssize_t)k;
  }
  if (g_os && fd >= 0 && fd == g_os->fifo_r) {
    g_os->fifo_read_tried = true;
    if (g_os->fifo.empty()) { errno = EAGAIN; return -1; }
    *(unsigned char*)buf = g_os->fifo.back(); g_os->fifo.pop_back(); g_os->fifo_taken++; return 1;
  }
#ifdef VERIF_NATIVE
  return OSREAL(read)(fd, buf, n);
#else
  VERIF_ASSERT(false, "read() of a descriptor outside the model"); return -1;
#endif
}
ssize_t OSFN(write)(int fd, const void* buf, size_t n) {
  if (g_os && fd >= 0 && fd == g_os->fifo_w) { for (size_t i = 0; i < n; i++) g_os->fifo.push_back(((const unsigned char*)buf)[i]); g_os->fifo_returned += (int)n; return (ssize_t)n; }
#ifdef VERIF_NATIVE
  return OSREAL(write)(fd, buf, n);
#else
  VERIF_ASSERT(false, "write() to a descriptor outside the model"); return -1;
#endif
}
int OSFN(open)(const char* path, int flags, ...) {
  if (g_os && strcmp(path, kFifoPath) == 0) {
    if (!g_os->fifo_exists) { errno = ENOENT; return -1; }
    int fd = os_new_fd(); g_os->open_fds++;
    if ((flags & O_ACCMODE) == O_RDONLY) g_os->fifo_r = fd; else g_os->fifo_w = fd;
    return fd;
  }
#ifdef VERIF_NATIVE
  mode_t mode = 0; if (flags & O_CREAT) { va_list ap; va_start(ap, flags); mode = va_arg(ap, mode_t); va_end(ap); }
  return OSREAL(open)(path, flags, mode);
#else
  errno = ENOENT; return -1;
#endif
}
int OSFN(fstat)(int fd, struct stat* st) {
  if (g_os && fd >= 0 && (fd == g_os->fifo_r || fd == g_os->fifo_w)) { memset(st, 0, sizeof *st); st->st_mode = S_IFIFO | 0600; return 0; }
#ifdef VERIF_NATIVE
  return OSREAL(fstat)(fd, st);
#else
  errno = EBADF; return -1;
#endif
}
// ------------------------------------------------------------------------------------------------ signals
int OSFN(sigemptyset)(sigset_t* s) { memset(s, 0, sizeof *s); return 0; }
int OSFN(sigaddset)(sigset_t* s, int sig) { ((unsigned long*)s)[0] |= 1UL << (sig - 1); return 0; }
int OSFN(sigismember)(const sigset_t* s, int sig) { return (int)((((const unsigned long*)s)[0] >> (sig - 1)) & 1); }
int OSFN(sigprocmask)(int, const sigset_t*, sigset_t* old) { if (old) memset(old, 0, sizeof *old); return 0; }
int OSFN(sigpending)(sigset_t* s) { memset(s, 0, sizeof *s); if (g_os && g_os->pending_signal) ((unsigned long*)s)[0] |= 1UL << (g_os->pending_signal - 1); return 0; }
int OSFN(sigaction)(int sig, const struct sigaction* act, struct sigaction* old) {
  if (!g_os) return 0;
  if (old) { memset(old, 0, sizeof *old); if (sig == SIGINT) old->sa_handler = g_os->h_int; else if (sig == SIGTERM) old->sa_handler = g_os->h_term; else if (sig == SIGHUP) old->sa_handler = g_os->h_hup; else if (sig == SIGCHLD) old->sa_sigaction = g_os->h_chld; }
  if (act) { if (sig == SIGINT) g_os->h_int = act->sa_handler; else if (sig == SIGTERM) g_os->h_term = act->sa_handler; else if (sig == SIGHUP) g_os->h_hup = act->sa_handler; else if (sig == SIGCHLD) g_os->h_chld = act->sa_sigaction; }
  return 0;
}
// ------------------------------------------------------------------------------------------------ spawn
int OSFN(posix_spawn_file_actions_init)(posix_spawn_file_actions_t*) { g_os->fa_dup_to_1 = g_os->fa_dup_to_2 = -1; g_os->fa_stdin_null = false; g_os->fa_close.clear(); return 0; }
int OSFN(posix_spawn_file_actions_destroy)(posix_spawn_file_actions_t*) { return 0; }
int OSFN(posix_spawn_file_actions_addclose)(posix_spawn_file_actions_t*, int fd) { g_os->fa_close.push_back(fd); return 0; }
int OSFN(posix_spawn_file_actions_addopen)(posix_spawn_file_actions_t*, int fd, const char* path, int, mode_t) { if (fd == 0 && strcmp(path, "/dev/null") == 0) g_os->fa_stdin_null = true; return 0; }
int OSFN(posix_spawn_file_actions_adddup2)(posix_spawn_file_actions_t*, int fd, int newfd) { if (newfd == 1) g_os->fa_dup_to_1 = fd; if (newfd == 2) g_os->fa_dup_to_2 = fd; return 0; }
int OSFN(posix_spawnattr_init)(posix_spawnattr_t*) { g_os->at_flags = 0; g_os->at_sigmask = false; return 0; }
int OSFN(posix_spawnattr_destroy)(posix_spawnattr_t*) { return 0; }
int OSFN(posix_spawnattr_setsigmask)(posix_spawnattr_t*, const sigset_t*) { g_os->at_sigmask = true; return 0; }
int OSFN(posix_spawnattr_setflags)(posix_spawnattr_t*, short f) { g_os->at_flags = f; return 0; }
int OSFN(posix_spawn)(pid_t* pid, const char* path, const posix_spawn_file_actions_t*, const posix_spawnattr_t*, char* const argv[], char* const[]) {
  VERIF_ASSERT(strcmp(path, "/bin/sh") == 0 && argv[0] && strcmp(argv[0], "/bin/sh") == 0 && argv[1] && strcmp(argv[1], "-c") == 0 && argv[2] && argv[3] == NULL, "C16: a command is run as /bin/sh -c <command>, the command being one argument");
  std::string command = argv[2];
  int ref = -1;
  for (int attempt = 0; attempt < 2 && ref < 0; attempt++) {
    for (size_t i = 0; i < g_ref.size(); i++) if (!g_ref[i].phony && g_ref[i].command.substr(0, g_ref[i].command.find(";rspfile=")) == command) ref = (int)i;
    if (ref < 0) { State st; SymDisk d; std::string err; ManifestParser p(&st, &d); if (p.Load("build.ninja", &err)) build_reference(&st); }     // the manifest was regenerated and re-read
  }
  VERIF_ASSERT(ref >= 0, "C16: the command handed to the shell is the evaluated command of a build statement");
  if (ref < 0) return ENOENT;
  if (verif_vfs_frozen()) g_dead = true;
  const RefEdge& e = g_ref[ref];
  g_commands_started = true;      // (from here on a stat() fault may be injected: kit.h)
  OsProc p; p.pid = g_os->next_pid++; p.ref = ref; p.exited = p.reaped = p.lingering = false; p.wstatus = 0; p.killed_by = 0; p.missing_input = false; p.cmdh = e.cmdh; p.flags = e.flags;
  p.out_on_pipe = g_os->fa_dup_to_1 >= 0 && g_os->fa_dup_to_1 == g_os->fa_dup_to_2; p.own_pgroup = (g_os->at_flags & POSIX_SPAWN_SETPGROUP) != 0; p.stdin_null = g_os->fa_stdin_null;
  p.console = !p.out_on_pipe; p.pipe = -1;
  if (p.out_on_pipe) { for (size_t i = 0; i < g_os->pipes.size(); i++) if (g_os->pipes[i].w_open && g_os->pipes[i].w_fd == g_os->fa_dup_to_1) p.pipe = (int)i;
    VERIF_ASSERT(p.pipe >= 0, "C20: a command's stdout and stderr are the write end of its own pipe"); if (p.pipe < 0) return EBADF; g_os->pipes[p.pipe].child_w = true; }
  VERIF_ASSERT(p.console == e.console, "C20: exactly the commands of the console pool inherit the terminal, all others write into a pipe");
  if (!p.console) { VERIF_ASSERT(p.own_pgroup && p.stdin_null, "C07: a command that does not own the console runs in its own process group with stdin from /dev/null");
    bool closes_r = false; for (size_t i = 0; i < g_os->fa_close.size(); i++) closes_r = closes_r || g_os->fa_close[i] == g_os->pipes[p.pipe].r_fd;
    VERIF_ASSERT(closes_r, "C20: the child does not keep the read end of its pipe open (the pipe would never reach end of file)"); }
  else VERIF_ASSERT(!p.own_pgroup, "C07: a console command stays in ninja's foreground process group");
  VERIF_ASSERT(g_os->at_sigmask && (g_os->at_flags & POSIX_SPAWN_SETSIGMASK), "C07: children start with the signal mask ninja itself was started with");
  // the monitors of the harness runner: each statement once, -j / token / pool limits, inputs fresh, directories, response file
  bool once = true; for (size_t i = 0; g_sink && i < g_sink->started.size(); i++) once = once && g_sink->started[i] != e.ordinal;
  VERIF_ASSERT(once, "C06: each build statement's command runs at most once per invocation");
  int running = os_running();
  if (g_os->fifo_exists && g_os->fifo_r >= 0) VERIF_ASSERT(running < 1 + g_os->fifo_taken - g_os->fifo_returned, "C06: never more commands running than jobserver tokens held");
  else VERIF_ASSERT(running < g_os_opts.parallelism, "C06: never more commands running than -j allows");
#ifdef LOAD_LIMIT
  VERIF_ASSERT(running == 0 || g_os_last_reported_load <= LOAD_LIMIT, "C06: with -l N no further command is started while the load average exceeds N");
  if (running > 0) verif_reach("started-under-load-limit"); if (g_os_last_reported_load > LOAD_LIMIT) verif_reach("started-alone-despite-load");
#endif
  { int same = 0; for (size_t i = 0; i < g_os->procs.size(); i++) if (!g_os->procs[i].exited && g_ref[g_os->procs[i].ref].pool_name == e.pool_name) same++;
    if (e.pool_depth > 0) VERIF_ASSERT(same < e.pool_depth, "C06: never more commands of a pool running than its depth"); }
  for (size_t i = 0; i < e.reads.size(); i++) {
    VFile* f = g_tree->find(e.reads[i]);
    if (!f || !f->exists) { if (i < e.ndeclared) p.missing_input = true; p.snap.push_back(0); } else p.snap.push_back(f->content);
    if (g_os_opts.check_inputs_fresh && ref_producer(e.reads[i]) && !ref_producer(e.reads[i])->phony) { bool ok = true; long want = clean_content(e.reads[i], &ok); if (ok) VERIF_ASSERT(f && f->exists && f->content == want, g_msg_fresh); }
  }
  for (size_t i = 0; i < e.outs.size(); i++) { size_t sl = e.outs[i].rfind('/'); if (sl != std::string::npos) VERIF_ASSERT(g_tree->has_dir(e.outs[i].substr(0, sl)), "C04: the directory of every output exists when the command starts"); }
  if (!e.rspfile.empty() && !g_dead && !verif_vfs_frozen()) { VFile* f = g_tree->find(e.rspfile); VERIF_ASSERT(f && f->exists && f->is_text && f->text == e.rspfile_content, "C16: the response file holds exactly the evaluated rspfile_content when the command starts"); }
  // what it will print
  p.split = false; p.stdout_len_at_start = g_os_opts.prints_output ? verif_stdout_len() : 0;
  p.will_fail = p.missing_input || (p.flags & ALWAYS_FAILS);          // whether it fails is a property of the command and what it read
  if (!p.will_fail && g_os_opts.may_fail) p.will_fail = verif_bool("command_fails");
  if (p.will_fail) p.to_write = g_os_opts.prints_output ? "<<err " + e.outs[0] + ">>\n" : std::string("boom");
  else if (g_os_opts.prints_output && !p.console && verif_bool("command_prints")) { p.to_write = out_block(e.outs[0]); p.split = verif_bool("output_in_two_writes"); os_sink_event("printed " + e.outs[0]); }
  if (!p.will_fail && e.deps_type == "msvc") for (size_t q = 0; q < e.reads.size(); q++) p.to_write += "Note: including file: " + e.reads[q] + "\n";
  if (g_dead) { p.exited = true; p.reaped = false; p.wstatus = 0; if (p.pipe >= 0) { g_os->pipes[p.pipe].data.clear(); g_os->pipes[p.pipe].child_w = false; } }
  g_os->procs.push_back(p);
  if (g_sink) { g_sink->started.push_back(e.ordinal); if (running + 1 > g_sink->max_running) g_sink->max_running = running + 1; } os_sink_event("start " + e.outs[0]);
  *pid = p.pid; return 0;
}
pid_t OSFN(waitpid)(pid_t pid, int* status, int options) {
  OsProc* p = os_proc(pid);
  if (!p) {
#ifdef VERIF_NATIVE
    return OSREAL(waitpid)(pid, status, options);
#else
    errno = ECHILD; return -1;
#endif
  }
  VERIF_ASSERT(!p->reaped, "C06: a command is waited for once");
  if (!p->exited) {
    if (options & WNOHANG) return 0;
    // a command that did not die the instant it was signalled: it may still modify its outputs before it goes
    if (p->lingering && verif_bool("interrupted_command_touched_outputs")) { const RefEdge& e = g_ref[p->ref]; for (size_t k = 0; k < e.outs.size(); k++) g_tree->write(e.outs[k], -13 - (long)k); os_sink_event("touched " + e.outs[0]); }
    os_proc_exit(*p);
  }
  p->reaped = true; if (p->fail_event_pending) { p->fail_event_pending = false; os_sink_event("fail " + g_ref[p->ref].outs[0]); }
  if (status) *status = p->wstatus; return pid;
}
int OSFN(kill)(pid_t pid, int sig) {
  OsProc* p = os_proc(pid < 0 ? -pid : pid);
  if (!p) {
#ifdef VERIF_NATIVE
    return OSREAL(kill)(pid, sig);
#else
    errno = ESRCH; return -1;
#endif
  }
  VERIF_ASSERT(pid < 0 && !p->console, "C07: ninja signals the process group of commands that do not share its terminal, and only those");
  if (sig != 0 && !p->exited && !p->lingering) { p->killed_by = sig; os_sink_event("killed " + g_ref[p->ref].outs[0]);
    // the signal is delivered asynchronously: the command may still be alive when kill() returns and ends only while ninja waits for it
    if (verif_bool("signalled_command_dies_later")) { p->lingering = true; p->to_write.clear(); verif_reach("lingering-command"); return 0; }
    // the command may already have modified its outputs when the signal reaches it
    if (verif_bool("interrupted_command_touched_outputs")) { const RefEdge& e = g_ref[p->ref]; for (size_t k = 0; k < e.outs.size(); k++) g_tree->write(e.outs[k], -13 - (long)k); os_sink_event("touched " + e.outs[0]); }
    p->to_write.clear(); os_proc_exit(*p); }
  return 0;
}
// ------------------------------------------------------------------------------------------------ the load average (ninja -l N): changes while ninja waits, reported when asked
int OSFN(getloadavg)(double* out, int n) { for (int i = 0; i < n; i++) out[i] = g_os_load; g_os_last_reported_load = g_os_load; return n; }
// ------------------------------------------------------------------------------------------------ the scheduler: what happens while ninja waits
int OSFN(ppoll)(struct pollfd* fds, nfds_t nfds, const struct timespec*, const sigset_t*) {
  if (verif_vfs_frozen()) g_dead = true;
#ifdef LOAD_LIMIT
  g_os_load = verif_bool("machine_is_loaded") ? 50.0 : 0.0;      // whatever else runs on the machine: the load average after this wait
#endif
  // the previous poll returned with nothing but "a jobserver token is available": ninja must have tried to take it before it waits again
  if (g_os->told_token_available) { VERIF_ASSERT(g_os->fifo_read_tried, "C06: told that a jobserver token is available while a command is startable, ninja takes it instead of going back to wait (no slot idles, the build finishes)"); g_os->told_token_available = false; }
  // another client of the jobserver returns a token to the pool while ninja is waiting for one
  { bool watching = false; for (nfds_t i = 0; i < nfds; i++) watching = watching || (fds[i].fd >= 0 && fds[i].fd == g_os->fifo_r);
    { bool pipes = false; for (nfds_t i = 0; i < nfds; i++) { bool w; if (fds[i].fd >= 0 && os_pipe_of(fds[i].fd, &w)) pipes = true; } if (watching && !pipes) verif_reach("watching-with-console-only"); }
    if (watching && g_os->external_tokens_left > 0 && verif_bool("another_client_returns_a_token")) { g_os->external_tokens_left--; g_os->fifo.push_back((unsigned char)'z'); g_os->fifo_tokens++; verif_reach("token-arrived"); } }
  // an interrupt signal arrives while ninja waits (its handler runs, the poll fails with EINTR) ...
  if (g_os->interrupts_left > 0 && verif_bool("interrupt_now")) {
    g_os->interrupts_left--; int which = verif_choice("interrupt_signal", 3); int sig = which == 0 ? SIGINT : which == 1 ? SIGTERM : SIGHUP;
    if (g_sink) g_sink->interrupted = true; os_sink_event("interrupt");
    // the foreground process group gets the signal from the terminal at the same time: console commands die with ninja's signal
    for (size_t i = 0; i < g_os->procs.size(); i++) if (!g_os->procs[i].exited && g_os->procs[i].console) { g_os->procs[i].killed_by = sig; os_proc_exit(g_os->procs[i]); }
    if (verif_bool("signal_delivered_during_poll")) { void (*h)(int) = sig == SIGINT ? g_os->h_int : sig == SIGTERM ? g_os->h_term : g_os->h_hup; VERIF_ASSERT(h != 0, "C07: ninja has a handler installed for SIGINT, SIGTERM and SIGHUP while it waits"); if (h) h(sig); errno = EINTR; return -1; }
    g_os->pending_signal = sig;          // ... or it stays pending while the poll returns descriptor events
  }
  // a readable jobserver descriptor alone is a reason for the poll to return: nothing else has to happen first
#ifdef DEBUG_EVENTS
  { char b[200]; int w = 0; for (nfds_t i = 0; i < nfds; i++) if (fds[i].fd >= 0 && fds[i].fd == g_os->fifo_r) w = 1; snprintf(b, sizeof b, "ppoll nfds=%d watching=%d fifo=%d pending=%d live=%d", (int)nfds, w, (int)g_os->fifo.size(), g_os->pending_signal, os_running()); verif_note(b); }
#endif
  { bool fifo_watched_ready = false; for (nfds_t i = 0; i < nfds; i++) if (fds[i].fd >= 0 && fds[i].fd == g_os->fifo_r && !g_os->fifo.empty()) fifo_watched_ready = true;
    bool other_ready = false; for (nfds_t i = 0; i < nfds; i++) { if (fds[i].fd < 0) continue; bool w; OsPipe* pp = os_pipe_of(fds[i].fd, &w); if (pp && !w && (!pp->data.empty() || !pp->writers())) other_ready = true; }
    if (fifo_watched_ready && !other_ready && !g_os->pending_signal && verif_bool("poll_returns_for_the_token_alone")) {
      int n1 = 0; for (nfds_t i = 0; i < nfds; i++) { fds[i].revents = 0; if (fds[i].fd >= 0 && fds[i].fd == g_os->fifo_r) { fds[i].revents = POLLIN; n1++; } }
      g_os->told_token_available = true; g_os->fifo_read_tried = false; verif_reach("woken-for-token"); return n1; } }
  // one process makes progress: writes (part of) its output or exits
  std::vector<int> live; for (size_t i = 0; i < g_os->procs.size(); i++) if (!g_os->procs[i].exited) live.push_back((int)i);
  bool any_ready = false;
  for (nfds_t i = 0; i < nfds; i++) { fds[i].revents = 0; if (fds[i].fd < 0) continue; bool w; OsPipe* pp = os_pipe_of(fds[i].fd, &w); if (pp && !w && (!pp->data.empty() || !pp->writers())) any_ready = true; }
  bool console_exit = false;
  if (!live.empty() && !(any_ready && g_os->pending_signal)) {
    int k = live.size() > 1 ? verif_choice("finish_which", (int)live.size()) : 0; OsProc& p = g_os->procs[live[k]];
    if (!p.to_write.empty() && p.split) { size_t cut = p.to_write.find('\n') + 1; g_os->pipes[p.pipe].data += p.to_write.substr(0, cut); p.to_write.erase(0, cut); p.split = false; }
    else {
      if (g_os_opts.prints_output && p.console) VERIF_ASSERT(verif_stdout_len() == p.stdout_len_at_start, "C20: while a console-pool command owns the terminal nothing else is written to it");
      os_proc_exit(p);
      console_exit = p.console; int first_pid = p.pid;
      // SIGCHLD is not queued: a second command may exit before ninja's handler gets to run, which then runs once, with the first child's pid
      { std::vector<int> live2; for (size_t i = 0; i < g_os->procs.size(); i++) if (!g_os->procs[i].exited) live2.push_back((int)i);
        if (!live2.empty() && verif_bool("second_command_exits_before_sigchld_is_handled")) { int k2 = live2.size() > 1 ? verif_choice("finish_which", (int)live2.size()) : 0; OsProc& q = g_os->procs[live2[k2]];
          if (g_os_opts.prints_output && q.console) VERIF_ASSERT(verif_stdout_len() == q.stdout_len_at_start, "C20: while a console-pool command owns the terminal nothing else is written to it");
          os_proc_exit(q); console_exit = console_exit || q.console; verif_reach("coalesced-sigchld"); } }
      if (g_os->h_chld) { siginfo_t si; memset(&si, 0, sizeof si); si.si_signo = SIGCHLD; si.si_code = CLD_EXITED; si.si_pid = first_pid; g_os->h_chld(SIGCHLD, &si, NULL); }
      // the SIGCHLD may interrupt the poll before the end of file on the pipe is reported (always so for console commands, which have no pipe)
      if (console_exit || g_os->sigchld_first) { errno = EINTR; return -1; }
    }
  } else if (live.empty() && !any_ready && !g_os->pending_signal) {
    bool fifo_ready = false; for (nfds_t i = 0; i < nfds; i++) if (fds[i].fd >= 0 && fds[i].fd == g_os->fifo_r && !g_os->fifo.empty()) fifo_ready = true;
    VERIF_ASSERT(fifo_ready, "C06: ninja never waits when no command is running and nothing can arrive (it would hang)");
    if (!fifo_ready) { VERIF_ASSUME(false); }
  }
  int n = 0;
  for (nfds_t i = 0; i < nfds; i++) { if (fds[i].fd < 0) continue; bool w; OsPipe* pp = os_pipe_of(fds[i].fd, &w);
    if (pp && !w) { if (!pp->data.empty()) fds[i].revents |= POLLIN; if (!pp->writers()) fds[i].revents |= POLLHUP; }
    else if (fds[i].fd == g_os->fifo_r && !g_os->fifo.empty()) fds[i].revents |= POLLIN;
    if (fds[i].revents) n++; }
  return n;
}
}
// one invocation = one process: a fresh world
static void os_begin(const RunnerOpts& o, int fifo_tokens) {
  g_os = new OsWorld; g_os_opts = o; g_os_load = 0.0; g_os_last_reported_load = 0.0;
#ifdef LOAD_LIMIT
  g_os_load = verif_bool("machine_is_loaded") ? 50.0 : 0.0;
#endif
  g_os->interrupts_left = o.may_interrupt ? 1 : 0;
  g_os->sigchld_first = verif_bool("sigchld_interrupts_poll_first");
  if (fifo_tokens >= 0) { g_os->fifo_exists = true; g_os->external_tokens_left = 1; for (int i = 0; i < fifo_tokens; i++) g_os->fifo.push_back((unsigned char)('a' + i)); g_os->fifo_tokens = fifo_tokens; }
}
static void os_end() {
  VERIF_ASSERT(g_os->open_fds == 0, "C06: every pipe and jobserver descriptor ninja opened is closed by the time it exits");
  // (a build abandoned because ninja's own bookkeeping failed - the injected stat() error - leaves commands that had already exited, but whose result it had
  //  not yet collected, unreaped: they are dead, their tokens are returned and their outputs looked at; only a command that could still be running counts)
  bool all_reaped = true; for (size_t i = 0; i < g_os->procs.size(); i++) all_reaped = all_reaped && (g_os->procs[i].reaped || (g_stat_failed && g_os->procs[i].exited));
  VERIF_ASSERT(all_reaped, "C06: every command ninja started has been waited for by the time it exits");
  if (g_os->fifo_exists) { VERIF_ASSERT(g_os->fifo_taken == g_os->fifo_returned, "C06: every jobserver token is returned by the time ninja exits, on every path");
    bool same = (int)g_os->fifo.size() == g_os->fifo_tokens; { int za = 0, zb = 0; for (size_t k = 0; k < g_os->fifo.size(); k++) if (g_os->fifo[k] == (unsigned char)'z') za++; zb = g_os->external_tokens_left == 0 ? 1 : 0; same = same && za == zb; }
    for (int i = 0; same && i < g_os->fifo_tokens - (g_os->external_tokens_left == 0 ? 1 : 0); i++) { bool have = false; for (size_t k = 0; k < g_os->fifo.size(); k++) have = have || g_os->fifo[k] == (unsigned char)('a' + i); same = have; }
    VERIF_ASSERT(same, "C06: the jobserver pool holds the same tokens afterwards (each token is written back with the value that was read)"); }
  VERIF_ASSERT(g_os->h_int == 0 && g_os->h_term == 0 && g_os->h_hup == 0 && g_os->h_chld == 0, "C07: the signal handlers ninja installed are removed again");
  g_os = NULL;
}
#endif

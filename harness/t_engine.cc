// engine regression probes (not a property check): packed struct copies with symbolic members
#include "verif.h"
struct Opts { int par; bool a, b, c, d; };
struct Holder { void* vt; Opts o; long pad[4]; };
static void __attribute__((noinline)) use(Holder* h, const Opts& o) { h->o = o; }
extern "C" int harness_main() {
  Opts o; o.par = 1 + (int)verif_nondet("p", 0, 1); o.a = false; o.b = false; o.c = false; o.d = false;
  if (verif_nondet("q", 0, 1)) { o.a = true; o.d = true; }
  Holder* h = new Holder; use(h, o);
  if (h->o.a) verif_reach("a-set"); else verif_reach("a-clear");
  if (h->o.d) verif_reach("d-set");
  verif_obs(h->o.a); verif_obs(h->o.par);
  return 0;
}

// C10 (deps = msvc): every file the compiler reports with "Note: including file:" ends up in CLParser::includes_, whatever its name, and nothing
// else does; the echoed source name and the include notes are taken out of the output shown to the user, everything else stays.
// Real code: CLParser::{Parse,FilterShowIncludes,FilterInputFilename,IsSystemInclude}, CanonicalizePath (the normalisation ninja applies to the name).
#include "clparser.h"
#include "util.h"
#include "verif.h"
#include <string.h>
#include <set>
#include <string>
#include <vector>
#ifndef VERIF_NAMES
#define VERIF_NAMES 1
#endif
#ifndef VERIF_LEN
#define VERIF_LEN 3
#endif
static std::string sym_name(int maxlen) {
  int n = (int)verif_concretize(verif_nondet("name_length", 1, maxlen));
  std::string s((size_t)n, 'x');
  for (int i = 0; i < n; i++) { long b = verif_nondet("byte", 1, 255); VERIF_ASSUME(b != '\r' && b != '\n'); s[i] = (char)b; }
  VERIF_ASSUME(s[0] != ' ');            // cl.exe indents nested includes with blanks: a name cannot start with one
  return s;
}
extern "C" int harness_main() {
  int k = (int)verif_concretize(verif_nondet("includes", 1, VERIF_NAMES));
  std::vector<std::string> names; for (int i = 0; i < k; i++) names.push_back(sym_name(VERIF_LEN));
  // layout: optional echo of the source file name first (cl.exe prints it), CRLF or LF line ends, 0..2 blanks of nesting indentation, a line of other
  // compiler output before, between or after the notes, localised prefix or the English one
  bool echo = verif_bool("source_name_echoed"), crlf = verif_bool("crlf"), custom = verif_bool("localised_prefix");
  int other_at = verif_choice("other_output_at", k + 2);      // k+1 = none
  const std::string prefix = custom ? "Remarque : inclusion du fichier : " : "Note: including file: ";
  const std::string nl = crlf ? "\r\n" : "\n", other = "warning C4100: unreferenced parameter";
  std::string out;
  if (echo) out += "unity.cpp" + nl;
  for (int i = 0; i < k; i++) {
    if (other_at == i) out += other + nl;
    out += prefix + std::string((size_t)verif_choice("nesting_indent", 3), ' ') + names[i] + nl;
  }
  if (other_at == k) out += other + nl;
  CLParser parser; std::string filtered, err;
  bool ok = parser.Parse(out, custom ? prefix : "", &filtered, &err);
  VERIF_ASSERT(ok, "C10: the compiler's /showIncludes output parses");
  std::set<std::string> want;
  for (int i = 0; i < k; i++) { std::string n = names[i]; uint64_t bits; CanonicalizePath(&n, &bits); want.insert(n); }
  bool same = parser.includes_.size() == want.size();
  for (std::set<std::string>::iterator it = want.begin(); same && it != want.end(); ++it) same = parser.includes_.count(*it) == 1;
  VERIF_ASSERT(same, "C10: every file reported by /showIncludes is recorded as a dependency, and nothing else is (deps = msvc)");
  VERIF_ASSERT(filtered == (other_at <= k ? other + "\n" : std::string()), "C10: the include notes and the echoed source name are removed from the output, everything else is kept");
  verif_obs((long)parser.includes_.size()); verif_obs((long)filtered.size());
  verif_reach(k > 1 ? "several-includes" : "one-include"); if (echo) verif_reach("source-echoed");
  return 0;
}

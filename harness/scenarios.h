// scenarios.h — the catalogue of graph shapes.  The SHAPE is concrete manifest text parsed by the real ManifestParser inside the engine;
// everything else (tree and log state, history, schedule, faults, options) is symbolic in the harnesses.
#ifndef VERIF_SCENARIOS_H_
#define VERIF_SCENARIOS_H_
#include "kit.h"
#define RULES \
  "rule cc\n  command = cc $in -o $out\n" \
  "rule ccd\n  command = cc -MD $in -o $out\n  depfile = $out.d\n  deps = gcc\n" \
  "rule ccf\n  command = cc -MD $in -o $out\n  depfile = $out.d\n" \
  "rule ccm\n  command = cl /showIncludes $in\n  deps = msvc\n" \
  "rule gen\n  command = gen $in > $out\n  restat = 1\n" \
  "rule conf\n  command = configure $in\n  generator = 1\n" \
  "rule gend\n  command = gen -MD $in > $out\n  restat = 1\n  depfile = $out.d\n  deps = gcc\n" \
  "rule genf\n  command = gen -MD $in > $out\n  restat = 1\n  depfile = $out.d\n" \
  "rule link2\n  command = ld @$out.rsp -o $out\n  rspfile = $out.rsp\n  rspfile_content = $in\n" \
  "rule link\n  command = ld $in -o $out\n  rspfile = $out.rsp\n  rspfile_content = $in_newline\n"
static const Scenario kScenarios[] = {
  /* 0 */ { "chain", { RULES "build b: cc a\nbuild c: cc b\nbuild d: cc c a2\n", RULES "build b: cc a\n  command = cc -O2 $in -o $out\nbuild c: cc b\nbuild d: cc c a2\n", NULL },
            "a a2", "d c", { { NULL } } },
  /* 1 */ { "restat_then_deps", { RULES "build g: gen s\nbuild o: ccd c g\n", NULL, NULL },
            "s c hdr", "o", { { "g", "", KEEP_IF_SAME | HALVE, NULL }, { "o", "hdr", 0, NULL }, { NULL } } },
  /* 2 */ { "diamond_order_only", { RULES "build g: gen s\nbuild o1: ccd c1 || g\nbuild o2: cc c2 | g\nbuild sub/x: link o1 o2\n", NULL, NULL },
            "s c1 c2", "sub/x o1", { { "g", "", KEEP_IF_SAME | HALVE, NULL }, { "o1", "g", 0, NULL }, { NULL } } },
  /* 3 */ { "depfile_plain", { RULES "build o: ccf c\nbuild x: cc o\n", NULL, NULL },
            "c hdr", "x", { { "o", "hdr", 0, NULL }, { NULL } } },
  /* 4 */ { "deps_msvc", { RULES "build o: ccm c\nbuild x: cc o\n", NULL, NULL },
            "c hdr", "x", { { "o", "hdr", 0, NULL }, { NULL } } },
  /* 5 */ { "multi_out_phony", { RULES "build o1 o2 | o3: cc a\nbuild x: cc o2\nbuild y: cc o3 b\nbuild all: phony x y\n", NULL, NULL },
            "a b", "all x", { { NULL } } },
  /* 6 */ { "generator_validation", { RULES "build cfg: conf s\nbuild o: cc c cfg |@ v\nbuild v: cc o c2\n", RULES "build cfg: conf s\n  command = configure --changed $in\nbuild o: cc c cfg |@ v\nbuild v: cc o c2\n", NULL },
            "s c c2", "o", { { NULL } } },
  /* 7 */ { "dyndep", { RULES "rule mkdd\n  command = scan $in > $out\nbuild dd: mkdd ddsrc\nbuild h2: gen s |@ hv\nbuild hv: cc s\nbuild out: cc in || dd\n  dyndep = dd\nbuild x: cc out\n", NULL, NULL },
            "ddsrc s in", "x out", { { "dd", "", 0, "ninja_dyndep_version = 1\nbuild out | out.imp: dyndep | h2\n" }, { "h2", "", KEEP_IF_SAME | HALVE, NULL }, { "out", "h2", 0, NULL }, { NULL } } },
  /* 8 */ { "generated_header_deps", { RULES "build gh: cc ghsrc\nbuild o: ccd c || gh\nbuild p: ccd c2 || gh\n", NULL, NULL },
            "ghsrc c c2", "o p", { { "o", "gh", 0, NULL }, { "p", "gh", 0, NULL }, { NULL } } },
  /* 9 */ { "pools", { RULES "pool p1\n  depth = 1\nbuild a1: cc s1\n  pool = p1\nbuild a2: cc s2\n  pool = p1\nbuild a3: cc s3\n  pool = console\nbuild a4: cc s4\n  pool = console\nbuild top: cc a1 a2 a3 a4\n", NULL, NULL },
            "s1 s2 s3 s4", "top", { { NULL } } },
  /* 10 */ { "dyndep_static_consumer", { RULES "rule mkdd\n  command = scan $in > $out\nbuild dd: mkdd ddsrc\nbuild h2: gen s\nbuild out: cc in || dd\n  dyndep = dd\nbuild x: cc out.imp\n", NULL, NULL },
            "ddsrc s in", "x out", { { "dd", "", 0, "ninja_dyndep_version = 1\nbuild out | out.imp: dyndep | h2\n" }, { "h2", "", KEEP_IF_SAME | HALVE, NULL }, { "out", "h2", 0, NULL }, { NULL } } },
  /* 11 */ { "dyndep_static_consumer_oo", { RULES "rule mkdd\n  command = scan $in > $out\nbuild dd: mkdd ddsrc\nbuild h2: gen s\nbuild out: cc in || dd\n  dyndep = dd\nbuild x: cc out.imp || dd\n", NULL, NULL },
            "ddsrc s in", "x out", { { "dd", "", 0, "ninja_dyndep_version = 1\nbuild out | out.imp: dyndep | h2\n" }, { "h2", "", KEEP_IF_SAME | HALVE, NULL }, { "out", "h2", 0, NULL }, { NULL } } },
  /* 12 */ { "restat_phony", { RULES "build gen.h: gen schema\nbuild lib: phony gen.h\nbuild hdrs: phony lib\nbuild x.out: cc x.in\nbuild y.out: cc y.in || hdrs\nbuild all: phony hdrs x.out y.out\n", NULL, NULL },
            "schema x.in y.in", "all", { { "gen.h", "", KEEP_IF_SAME | HALVE, NULL }, { NULL } } },
  /* 13 */ { "wide3", { RULES "build w1: cc s1\nbuild w2: cc s2\nbuild w3: cc s3\nbuild top: cc w1 w2 w3\n", NULL, NULL },
            "s1 s2 s3", "top", { { NULL } } },
  /* 14 */ { "discovered_generated_no_path", { RULES "build gh: cc ghsrc\nbuild o: ccd c\n", NULL, NULL },
            "ghsrc c", "gh o", { { "o", "gh", 0, NULL }, { NULL } } },
  /* 15 */ { "dyndep_two_files", { RULES "rule mkdd\n  command = scan $in > $out\nbuild dd: mkdd ddsrc\nbuild dd2: mkdd ddsrc2\nbuild h2: gen s\nbuild out: cc in || dd\n  dyndep = dd\nbuild out2: cc in2 || dd2\n  dyndep = dd2\nbuild x: cc out out2\n", NULL, NULL },
            "ddsrc ddsrc2 s in in2", "x", { { "dd", "", 0, "ninja_dyndep_version = 1\nbuild out | out.imp: dyndep | h2\n" }, { "dd2", "", 0, "ninja_dyndep_version = 1\nbuild out2: dyndep | h2\n" }, { "h2", "", KEEP_IF_SAME | HALVE, NULL }, { "out", "h2", 0, NULL }, { "out2", "h2", 0, NULL }, { NULL } } },
  /* 16 */ { "cycle_explicit", { RULES "build a: cc b\nbuild b: cc c s\nbuild c: cc a\nbuild d: cc s\nbuild e: cc a d\n", NULL, NULL }, "s", "a b d e", { { NULL } } },
  /* 17 */ { "cycle_order_only_implicit", { RULES "build a: cc s || b\nbuild b: cc s | a\nbuild d: cc s\n", NULL, NULL }, "s", "a b d", { { NULL } } },
  /* 18 */ { "cycle_multi_output", { RULES "build a a2: cc b\nbuild b: cc a2\nbuild top: cc a d\nbuild d: cc s\n", NULL, NULL }, "s", "a b top d", { { NULL } } },
  /* 19 */ { "validation_on_requester", { RULES "build a: cc s |@ v\nbuild v: cc a\nbuild w: cc s |@ w2\nbuild w2: cc s |@ w\n", NULL, NULL }, "s", "a v w", { { NULL } } },
  /* 20 */ { "cycle_by_depfile", { RULES "build a: ccf s\nbuild b: cc a\nbuild d: cc s\n", NULL, NULL }, "s", "b d", { { "a", "b", 0, NULL }, { NULL } } },
  /* 21 */ { "cycle_by_deps_log", { RULES "build a: ccd s\nbuild b: cc a\nbuild d: cc s\n", NULL, NULL }, "s", "b d", { { "a", "b", 0, NULL }, { NULL } } },
  /* 22 */ { "self_cycle", { RULES "build a: cc a\nbuild p: phony p\nbuild d: cc s p\nbuild q | q.extra: phony q\nbuild top: cc s q\n", NULL, NULL }, "s", "a d top", { { "a", "", EXPECT_CYCLE, NULL }, { "q", "", EXPECT_CYCLE, NULL }, { "top", "", EXPECT_CYCLE, NULL }, { NULL } } },
  /* 23 */ { "cycle_by_dyndep_running", { RULES "rule mkdd\n  command = scan $in > $out\nbuild dd: mkdd ddsrc\nbuild rout: cc o2\nbuild out: cc rout || dd\n  dyndep = dd\n", NULL, NULL }, "ddsrc o2", "out",
            { { "dd", "", 0, "ninja_dyndep_version = 1\nbuild out | o2: dyndep\n" }, { "out", "", EXPECT_CYCLE, NULL }, { NULL } } },
  /* 24 */ { "independent_depfile_edges", { RULES "build a.o: cc a.c\nbuild dir/lib: cc a.o\nbuild b.o: ccd b.c\nbuild c.o: ccf c.c\nbuild all: phony dir/lib b.o c.o\n", NULL, NULL },
            "a.c b.c c.c hdr", "all", { { "b.o", "hdr", 0, NULL }, { "c.o", "hdr", 0, NULL }, { NULL } } },
  /* 25 */ { "restat_with_deps", { RULES "build o: gend c\nbuild p: genf c2\nbuild x: cc o p\n", NULL, NULL },
            "c c2 hdr", "x", { { "o", "hdr", KEEP_IF_SAME | HALVE, NULL }, { "p", "hdr", KEEP_IF_SAME | HALVE, NULL }, { NULL } } },
  /* 26 */ { "restat_order_only_newer", { RULES "build mid: gen s\nbuild out: cc mid || stamp\n", RULES "build mid: gen s\nbuild out: cc mid || stamp\n  command = cc -O2 $in -o $out\n", NULL },
            "s stamp", "out", { { "mid", "", KEEP_IF_SAME | HALVE, NULL }, { NULL } } },
  /* 27 */ { "rspfile_empty_content", { RULES "build o1: cc c1\nbuild app: link2 | o1\nbuild app2: link2 o1\n", NULL, NULL },
            "c1", "app app2", { { NULL } } },
  /* 28 */ { "depfile_noncanonical_path", { RULES "build gh: cc ghsrc\nbuild o: ccd c || gh\n", NULL, NULL },
            "ghsrc c", "o", { { "o", "gh", NONCANONICAL_DEPFILE, NULL }, { NULL } } },
  /* 29 */ { "regen_manifest", { RULES "rule regen\n  command = configure\n  generator = 1\nbuild build.ninja: regen configure.in\nbuild b: cc a\nbuild c: cc b\n",
                                 RULES "rule regen\n  command = configure\n  generator = 1\nbuild build.ninja: regen configure.in\nbuild b: cc a a2\nbuild c: cc b\n  command = cc -O2 $in -o $out\n", NULL },
            "a a2 configure.in", "c b", { { "build.ninja", "", REGEN_MANIFEST, NULL }, { NULL } } },
  /* 30 */ { "dead_outputs", { RULES "build old: cc s1\nbuild old2: cc s1\nbuild olddep: ccf s3\nbuild keep: cc s2\nbuild all: phony old old2 olddep keep\n",
                               RULES "build keep: cc s2 old2\nbuild all: phony keep\n", NULL },
            "s1 s2 s3", "all", { { NULL } } },
  /* 31 */ { "tools_mix", { RULES "rule ver\n  command = mkver > $out\nbuild version.h: ver\nbuild o: cc c | version.h\nbuild app: link2 o\nbuild all: phony app\n", NULL, NULL },
            "c", "app all", { { NULL } } },
  /* 32 */ { "generator_runs_restat", { RULES "build pre: cc s1\nbuild gen.stamp: conf cfg pre\nbuild out: cc s2 || gen.stamp\nbuild post: cc out\n", RULES "build pre: cc s1\nbuild gen.stamp: conf cfg pre\nbuild out: cc s2 || gen.stamp\n  command = cc -O2 $in -o $out\nbuild post: cc out\n", NULL },
            "s1 s2 cfg", "post", { { "gen.stamp", "", RUNS_RESTAT_TOOL, NULL }, { NULL } } },
  /* 33 */ { "dyndep_after_order_only", { RULES "rule mkdd\n  command = scan $in > $out\nbuild dd: mkdd ddsrc\nbuild oo: cc s0\nbuild h2: gen s\nbuild out: cc in || oo dd\n  dyndep = dd\nbuild x: cc out\n", NULL, NULL },
            "ddsrc s0 s in", "x out", { { "dd", "", 0, "ninja_dyndep_version = 1\nbuild out | out.imp: dyndep | h2\n" }, { "h2", "", KEEP_IF_SAME | HALVE, NULL }, { "out", "h2", 0, NULL }, { NULL } } },
  /* 34 */ { "console_first", { RULES "build c1: cc s1\n  pool = console\nbuild w1: cc s2\nbuild w2: cc s3\nbuild top: cc c1 w1 w2\n", NULL, NULL },
            "s1 s2 s3", "top", { { NULL } } },
  /* 35 */ { "restat_consumer", { RULES "build mid: gen s\nbuild out: cc mid s2\n", NULL, NULL },
            "s s2", "out", { { "mid", "", KEEP_IF_SAME | HALVE, NULL }, { NULL } } },
  /* 36 */ { "include_switch", { RULES "build a.o: gend a.c\nbuild b.o: ccd b.c\nbuild all: phony a.o b.o\n", NULL, NULL },
            "a.c b.c eq1.h eq2.h common.h", "all", { { "a.o", "eq1.h|eq2.h common.h", KEEP_IF_SAME | HALVE, NULL }, { "b.o", "eq2.h common.h", 0, NULL }, { NULL } } },
  /* 37 */ { "dyndep_checked_in", { RULES "build out: cc in || dd\n  dyndep = dd\nbuild x: cc out.imp || out\nbuild y: cc s2\n", NULL, NULL },
            "in dd s2", "x y", { { "dd", "", 0, "ninja_dyndep_version = 1\nbuild out | out.imp: dyndep\n" }, { NULL } } },
  /* 38 */ { "dyndep_rule_level_restat", { RULES "rule mkdd\n  command = scan $in > $out\nrule ccdd\n  command = ccdd $in -o $out\n  dyndep = dd\nbuild dd: mkdd ddsrc\nbuild out: ccdd in || dd\nbuild other: cc s2\nbuild y: cc other out\n", NULL, NULL },
            "ddsrc in s2", "y", { { "dd", "", 0, "ninja_dyndep_version = 1\nbuild out: dyndep\n  restat = 1\n" }, { "out", "", KEEP_IF_SAME, NULL }, { NULL } } },
  /* 39 */ { "stale_depfile_no_cycle", { RULES "build b: ccf a\nbuild b2: ccd a\nbuild all: phony b b2\n", RULES "build b: ccf a\n  command = cc -MD -O2 $in -o $out\nbuild b2: ccd a\n  command = cc -MD -O2 $in -o $out\nbuild c: cc b b2\nbuild d: cc c\nbuild all: phony d\n", NULL },
            "a d", "all b", { { "b", "d@0", 0, NULL }, { "b2", "d@0", 0, NULL }, { NULL } } },
  /* 40 */ { "phony_in_console_pool", { RULES "build p0: cc s1\nbuild ph: phony p0\n  pool = console\nbuild c1: cc s2 | ph\n  pool = console\nbuild c2: cc s3 | ph\n  pool = console\nbuild w: cc s4\nbuild top: cc c1 c2 w\n", NULL, NULL },
            "s1 s2 s3 s4", "top", { { NULL } } },
  /* 41 */ { "dyndep_input_in_pool", { RULES "pool p\n  depth = 2\nrule mkdd\n  command = scan $in > $out\nbuild dd: mkdd ddsrc\nbuild pp: cc s1\n  pool = p\nbuild out: cc in || dd\n  dyndep = dd\nbuild top: cc out pp\n", NULL, NULL },
            "ddsrc s1 in", "top out", { { "dd", "", 0, "ninja_dyndep_version = 1\nbuild out: dyndep | pp\n" }, { "out", "pp", 0, NULL }, { NULL } } },
  /* 42 */ { "phony_mixed_restat", { RULES "build cfg.h: gen cfg.in\nbuild headers: phony cfg.h extra.h\nbuild out: cc src | headers\nbuild out2: cc src2 || headers\n", NULL, NULL },
            "cfg.in extra.h src src2", "out out2", { { "cfg.h", "", KEEP_IF_SAME | HALVE, NULL }, { NULL } } },
  /* 43 */ { "pruned_depfile_dir", { RULES "rule ccdd\n  command = cc -MD $in -o $out\n  depfile = deps/$out.d\n  deps = gcc\nbuild a.o: ccdd a.c\nbuild pruned: cc a.o\nbuild b.o: ccdd b.c || pruned\nbuild obj/c.o: ccdd c.c || pruned\n", NULL, NULL },
            "a.c b.c c.c hdr", "b.o obj/c.o", { { "a.o", "hdr", 0, NULL }, { "b.o", "hdr", 0, NULL }, { "obj/c.o", "hdr", 0, NULL }, { "pruned", "", REMOVES_EMPTY_DIRS, NULL }, { NULL } } },
  /* 44 */ { "dyndep_input_also_order_only", { RULES "rule mkdd\n  command = scan $in > $out\nbuild dd: mkdd ddsrc\nbuild h2: cc s\nbuild out: cc in || dd h2\n  dyndep = dd\nbuild x: cc out\n", NULL, NULL },
            "ddsrc s in", "x out", { { "dd", "", 0, "ninja_dyndep_version = 1\nbuild out: dyndep | h2\n" }, { "out", "h2", 0, NULL }, { NULL } } },
  /* 45 */ { "restat_and_plain_inputs", { RULES "build bo: cc sb\nbuild ao: gen sa\nbuild c: cc bo ao\n", NULL, NULL },
            "sa sb", "c", { { "ao", "", KEEP_IF_SAME | HALVE, NULL }, { NULL } } },
  /* 46 */ { "pool_depth2_wide", { RULES "pool p\n  depth = 2\nbuild w1: cc s1\n  pool = p\nbuild w2: cc s2\n  pool = p\nbuild w3: cc s3\n  pool = p\nbuild top: cc w1 w2 w3\n", NULL, NULL },
            "s1 s2 s3", "top", { { NULL } } },
  /* 47 */ { "dyndep_clean_root", { RULES "rule mkdd\n  command = scan $in > $out\nbuild dd: mkdd ddsrc\nbuild pre: cc pre.in\nbuild lib: cc lib.in || pre\nbuild out: cc in || dd\n  dyndep = dd\n", NULL, NULL },
            "ddsrc pre.in lib.in in", "out", { { "dd", "", 0, "ninja_dyndep_version = 1\nbuild out: dyndep | lib\n" }, { "out", "lib", 0, NULL }, { NULL } } },
};
#ifndef SCENARIO
#define SCENARIO 0
#endif
#endif

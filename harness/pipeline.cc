// pipeline.cc — full-pipeline harnesses: one module per MODE (which property's assertions are active) and SCENARIO (graph shape).
//   MODE_HISTORY  histories of invocations with user operations in between                 C01 C02 C03 C04 C10 C11
//   MODE_FAIL     one invocation with failing commands, -k, exit codes                      C05
//   MODE_SCHED    one invocation: -j / pools / jobserver tokens / spawn failures            C06
//   MODE_CRASH    a build killed at a symbolic persistence event or interrupted, recovery   C07
#include <unistd.h>
#include "scenarios.h"
#ifdef VIA_MAIN
#include "mainkit.h"
#endif
#ifndef HISTORY
#define HISTORY 2
#endif
#define ACTIVE(x) (defined(x))
#ifdef CHECK_C01
#define A01(c, m) VERIF_ASSERT(c, m)
#else
#define A01(c, m) (void)0
#endif
#ifdef CHECK_C02
#define A02(c, m) VERIF_ASSERT(c, m)
#else
#define A02(c, m) (void)0
#endif
#ifdef CHECK_C03
#define A03(c, m) VERIF_ASSERT(c, m)
#else
#define A03(c, m) (void)0
#endif

static void load_reference() {     // the declared-input view of the current manifest, before an invocation
  State st; SymDisk d; std::string err; ManifestParser p(&st, &d);
  if (p.Load("build.ninja", &err)) build_reference(&st);
}
static bool g_only_discovered_missing;
static void user_operations(const Scenario* sc) {
#ifdef CHECK_C10
  // a header that is only known through depfile / deps log may vanish (the source no longer includes it)
  { std::vector<std::string> src0 = split_words(sc->sources); g_only_discovered_missing = false;
    for (size_t i = 0; i < src0.size(); i++) if (src0[i].compare(0, 3, "hdr") == 0 && verif_bool("discovered_header_vanishes")) { g_tree->remove(src0[i]); g_only_discovered_missing = true; verif_reach("header-vanished"); } }
#endif
  // any subset of the sources (incl. headers only known through depfiles) is edited
  std::vector<std::string> src = split_words(sc->sources);
#ifdef SINGLE_EDIT
  // (cheaper tier for the larger shapes) at most one source is edited
  { int which = verif_choice("edit_one_source", (int)src.size() + 1); int amount = 1;
#ifdef DOUBLE_EDIT
    if (which > 0) amount = 1 + verif_choice("edit_amount_minus_1", 2);       // (a restat-style generator reproduces its output for some edits and not for others)
#endif
    if (which > 0) { edit_file(src[which - 1], amount); verif_note(("edit " + src[which - 1]).c_str()); } }
#else
  for (size_t i = 0; i < src.size(); i++) if (verif_bool("edit_source")) { edit_file(src[i]); verif_note(("edit " + src[i]).c_str()); }
#endif
  // at most one output, depfile or log is deleted
  std::vector<std::string> outs;
  for (size_t i = 0; i < g_tree->files.size(); i++) { VFile& f = g_tree->files[i]; bool is_src = false; for (size_t k = 0; k < src.size(); k++) is_src = is_src || src[k] == f.name; if (!is_src && f.exists && f.name != ".ninja_lock" && f.name != "build.ninja") outs.push_back(f.name); }
#ifdef NO_DELETE
  outs.clear();
#endif
#ifdef DELETE_LOGS
  // the build directory is restored without one of ninja's logs (a cache that keeps the outputs only)
  { int which = verif_choice("delete_log", 3); if (which == 1) { unlink(".ninja_deps"); verif_note("delete .ninja_deps"); } else if (which == 2) { unlink(".ninja_log"); verif_note("delete .ninja_log"); } }
#endif
  int del = verif_choice("delete_output", (int)outs.size() + 1);
  if (del > 0) { g_tree->remove(outs[del - 1]); verif_note(("delete " + outs[del - 1]).c_str()); }
  // the manifest is switched to another variant (changed command line, added statement ...)
  int nvar = 1; while (nvar < 3 && sc->manifest[nvar]) nvar++;
  if (nvar > 1 && !scenario_regenerates()) { g_manifest_variant = verif_choice("manifest_variant", nvar); }     // (a regenerating scenario switches by editing configure.in)
}
static void observe(const InvocationResult& r) {
  verif_obs(r.rc); verif_obs((long)r.started.size());
  for (size_t i = 0; i < r.started.size(); i++) verif_obs(r.started[i]);
#ifdef DEBUG_EVENTS
  { char b[512]; snprintf(b, sizeof b, "inv rc=%d up_to_date=%d parsed=%d added=%d err=%s", r.rc, r.up_to_date, r.parsed, r.added, r.err.c_str()); verif_note(b);
  for (size_t i = 0; i < r.events.size(); i++) verif_note(("  " + r.events[i]).c_str());
  for (size_t i = 0; i < g_tree->files.size(); i++) { bool ok = true; long want = ref_producer(g_tree->files[i].name) ? clean_content(g_tree->files[i].name, &ok) : -1; snprintf(b, sizeof b, "  file %s exists=%d mtime=%ld content=%ld clean=%ld", g_tree->files[i].name.c_str(), g_tree->files[i].exists, (long)g_tree->files[i].mtime, g_tree->files[i].content, want); verif_note(b); } }
#endif
}
// everything built once, sequentially, no faults: a reachable starting state
static void full_build(const Scenario* sc) {
  InvocationOpts o; o.targets = split_words(sc->targets); o.run.parallelism = 1;
  InvocationResult r = invoke(o);
  VERIF_ASSERT(r.parsed && r.added && r.rc == 0, "set-up: the initial full build succeeds");
}
static bool event_before(const std::vector<std::string>& ev, const std::string& a, const std::string& b) {
  int ia = -1, ib = -1; for (size_t i = 0; i < ev.size(); i++) { if (ev[i] == a && ia < 0) ia = (int)i; if (ev[i] == b && ib < 0) ib = (int)i; }
  return ia >= 0 && (ib < 0 || ia < ib);
}

#if defined(MODE_FAIL)
// ------------------------------------------------------------------------------------------------ C05
extern "C" int harness_main() {
  ir2c_global_ctors();
  const Scenario* sc = &kScenarios[SCENARIO];
  init_tree(sc);
#ifdef FROM_BUILT
  full_build(sc); user_operations(sc);
#endif
  // a declared source may be missing
  std::vector<std::string> src = split_words(sc->sources);
#ifdef WIDE_EXIT_CODES
  int missing = 0;       // (the exit-code jobs vary the codes; missing sources and touched outputs are varied by the other C05 jobs)
#else
  int missing = verif_choice("missing_source", (int)src.size() + 1);
#endif
  if (missing > 0) g_tree->remove(src[missing - 1]);
  InvocationOpts o; o.targets = symbolic_targets(sc, "request_target");
#ifdef WIDE_EXIT_CODES
  o.run.parallelism = 1 + verif_choice("jobs_minus_1", 2);
  int k = verif_bool("keep_going_unlimited") ? 2 : 0;             // -k 1, -k 0 (unlimited)
#else
  o.run.parallelism = 1 + verif_choice("jobs_minus_1", 3);
  int k = verif_choice("keep_going", 3);             // -k 1, -k 2, -k 0 (unlimited)
#endif
  o.failures_allowed = k == 2 ? 1000000 : k + 1;
  o.run.may_fail = true; o.run.failed_touch = true; o.run.sym_exit_code = true;
#ifdef WIDE_EXIT_CODES
  o.run.failed_touch = false;
#endif
#ifdef WITH_JOBSERVER
  o.token_pool = verif_choice("jobserver_tokens", 2);      // the implicit slot plus 0..1 explicit tokens
#endif
  load_reference();
  // which log records exist before
  InvocationResult r = invoke(o);
  VERIF_ASSERT(r.parsed, "the scenario manifest parses");
  observe(r);
  std::vector<std::string> cl; for (size_t i = 0; i < o.targets.size(); i++) closure(o.targets[i], &cl);
  if (missing > 0) {
    bool needed = false; for (size_t i = 0; i < cl.size(); i++) needed = needed || cl[i] == src[missing - 1];
    // is it read as a declared (manifest) input of a needed statement?  (an extra, discovered read that vanished only forces a rebuild)
    bool declared = false;
    for (size_t i = 0; i < g_ref.size(); i++) { bool edge_needed = false; for (size_t c = 0; c < cl.size(); c++) for (size_t q = 0; q < g_ref[i].outs.size(); q++) edge_needed = edge_needed || cl[c] == g_ref[i].outs[q];
      if (!edge_needed) continue; const CmdSpec* s = spec_for(g_ref[i].outs[0]); std::vector<std::string> extra = split_words(s ? s->extra_reads : "");
      for (size_t q = 0; q < g_ref[i].reads.size(); q++) { bool is_extra = false; for (size_t z = 0; z < extra.size(); z++) is_extra = is_extra || extra[z] == g_ref[i].reads[q]; if (g_ref[i].reads[q] == src[missing - 1] && !is_extra) declared = true; }
      for (size_t q = 0; q < g_ref[i].order_only.size(); q++) if (g_ref[i].order_only[q] == src[missing - 1]) declared = true; }
#ifndef FROM_BUILT
    if (needed && declared) {
      VERIF_ASSERT(!r.added && r.started.empty() && r.err.find("missing and no known rule to make it") != std::string::npos, "C05: a missing declared source without a rule is reported before any command runs");
      verif_reach("missing-source");
    }
#endif
    return 0;
  }
  if (!r.added) return 0;
  // (i) nothing that depends on a failed command is started
  bool contained = true;
  for (size_t i = 0; i < g_ref.size(); i++) {
    if (!has_id(r.started, g_ref[i].ordinal)) continue;
    std::vector<std::string> deps;             // everything this statement transitively depends on
    for (size_t q = 0; q < g_ref[i].reads.size(); q++) closure(g_ref[i].reads[q], &deps);
    for (size_t q = 0; q < g_ref[i].order_only.size(); q++) closure(g_ref[i].order_only[q], &deps);
    for (size_t d = 0; d < deps.size(); d++) { const RefEdge* p = ref_producer(deps[d]); if (p && !p->phony && p != &g_ref[i] && has_id(r.failed, p->ordinal) && event_before(r.events, "fail " + p->outs[0], "start " + g_ref[i].outs[0])) contained = false; }
  }
  VERIF_ASSERT(contained, "C05: nothing that depends on a failed command is started");
  // (ii) exit status taken from a failed command, message by -k
  if (!r.failed.empty()) {
    bool from_failed = false; for (size_t i = 0; i < r.exit_codes.size(); i++) from_failed = from_failed || r.exit_codes[i] == r.rc;
    VERIF_ASSERT(r.rc != 0 && from_failed, "C05: ninja exits with the non-zero status of a failed command");
    VERIF_ASSERT(r.err == "subcommand failed" || r.err == "subcommands failed" || r.err == "cannot make progress due to previous errors", "C05: a failed build reports why it stopped");
    verif_reach("failed");
  } else { VERIF_ASSERT(r.rc == 0, "C05: without a failing command the build succeeds"); verif_reach("all-succeeded"); }
  // (iv) -k N: nothing new starts after the N-th failure, running commands are still reaped and recorded
  int nfail = 0; bool started_after_budget = false;
  for (size_t i = 0; i < r.events.size(); i++) { if (r.events[i].compare(0, 5, "fail ") == 0) nfail++; else if (r.events[i].compare(0, 6, "start ") == 0 && nfail >= o.failures_allowed) started_after_budget = true; }
  VERIF_ASSERT(!started_after_budget, "C05: after N failures (-k N) nothing new is started");
  VERIF_ASSERT((int)r.started.size() == (int)r.finished_ok.size() + (int)r.failed.size(), "C05: every command that was running is waited for");
#ifndef FROM_BUILT
  if (nfail < o.failures_allowed) {
    // from an empty tree everything needed has to run: every needed statement whose producers all succeeded was started
    bool all_started = true;
    for (size_t i = 0; i < g_ref.size(); i++) {
      if (g_ref[i].phony) continue; bool needed = false; for (size_t c = 0; c < cl.size(); c++) needed = needed || cl[c] == g_ref[i].outs[0]; if (!needed) continue;
      std::vector<std::string> deps; bool blocked = has_id(r.failed, g_ref[i].ordinal) && false;
      for (size_t q = 0; q < g_ref[i].reads.size(); q++) closure(g_ref[i].reads[q], &deps);
      for (size_t q = 0; q < g_ref[i].order_only.size(); q++) closure(g_ref[i].order_only[q], &deps);
      for (size_t d = 0; d < deps.size(); d++) { const RefEdge* p = ref_producer(deps[d]); if (p && !p->phony && p != &g_ref[i] && has_id(r.failed, p->ordinal)) blocked = true; }
      if (!blocked && !has_id(r.started, g_ref[i].ordinal)) all_started = false;
    }
    VERIF_ASSERT(all_started, "C05: while the failure budget lasts every command that does not depend on a failed one is started");
  }
#endif
  // (iii) no record for a failed command; successful ones are recorded: the next run (nothing fails) re-starts exactly the failed ones and what depended on them
  {
    BuildLog log; std::string err; log.Load(".ninja_log", &err);
    bool ok_recorded = true, failed_unrecorded = true;
    for (size_t i = 0; i < g_ref.size(); i++) {
      BuildLog::LogEntry* e = log.LookupByOutput(g_ref[i].outs[0]);
      if (has_id(r.finished_ok, g_ref[i].ordinal)) ok_recorded = ok_recorded && e != NULL;
#ifndef FROM_BUILT
      if (has_id(r.failed, g_ref[i].ordinal)) failed_unrecorded = failed_unrecorded && e == NULL;
#endif
    }
    VERIF_ASSERT(ok_recorded, "C05: commands that completed successfully are recorded even when the build fails");
    VERIF_ASSERT(failed_unrecorded, "C05: no build-log record is written for a failed command");
  }
  if (!r.failed.empty()) {
    InvocationOpts o2 = o; o2.run.may_fail = false; o2.run.parallelism = 1;
    InvocationResult r2 = invoke(o2);
    observe(r2);
    bool retried = r2.added && r2.rc == 0;
    for (size_t i = 0; i < r.failed.size(); i++) retried = retried && has_id(r2.started, r.failed[i]);
    VERIF_ASSERT(retried, "C05: the next build retries every command that failed");
    verif_reach("retried");
  }
  return 0;
}
#elif defined(MODE_SCHED)
// ------------------------------------------------------------------------------------------------ C06 (and the C04 / C16 start-time monitors)
extern "C" int harness_main() {
  ir2c_global_ctors();
  const Scenario* sc = &kScenarios[SCENARIO];
  init_tree(sc);
#ifdef FROM_BUILT
  full_build(sc); user_operations(sc);
#endif
  InvocationOpts o; o.targets = symbolic_targets(sc, "request_target");
  o.run.parallelism = 1 + verif_choice("jobs_minus_1", 3);
  o.run.check_idle = true; o.run.check_inputs_fresh = true;
#ifdef WITH_FAILURES
  o.run.may_fail = true; o.failures_allowed = 1 + verif_choice("keep_going_minus_1", 2);
#endif
#ifdef WITH_JOBSERVER
  o.token_pool = verif_choice("jobserver_tokens", 3); o.run.start_may_fail = true;
#endif
#ifdef STAT_MAY_FAIL
  g_stat_may_fail = true; o.run.start_may_fail = false;
#endif
  InvocationResult r = invoke(o);
#ifdef STAT_MAY_FAIL
  if (g_stat_failed) verif_reach(r.rc == 0 ? "stat-failure-tolerated" : "stat-failed");      // (a failing stat of the lock file is tolerated: the outputs' own mtimes are recorded instead)
#endif
  VERIF_ASSERT(r.parsed && r.added, "the scenario manifest parses and the targets are known");
  observe(r);
  VERIF_ASSERT(!r.stuck, "C06: ninja never gives up with 'stuck'");
  { int extra = 0;
#ifdef REAL_RUNNER
    extra = 1;      // another client may have returned one more token to the pool
#endif
    VERIF_ASSERT(r.max_running <= (o.token_pool >= 0 ? o.token_pool + 1 + extra : o.run.parallelism), "C06: the number of running commands never exceeds the limit"); }
#ifdef WITH_JOBSERVER
  VERIF_ASSERT(r.tokens_outstanding == 0, "C06: every jobserver token is returned by the time ninja exits, on every path");
  verif_reach(r.rc == 0 ? "tokens-success" : "tokens-failure");
#endif
  if (r.rc == 0 && !r.up_to_date) { VERIF_ASSERT(r.started.size() == r.finished_ok.size(), "C06: a successful build has finished everything it started"); verif_reach("built"); }
  if (r.max_running > 1) verif_reach("parallel");
  // response files: gone once the command has succeeded, kept for inspection when it failed
  for (size_t i = 0; i < g_ref.size(); i++) { if (g_ref[i].rspfile.empty()) continue;
    bool shared_with_failed = false; for (size_t q = 0; q < g_ref.size(); q++) if (q != i && g_ref[q].rspfile == g_ref[i].rspfile && has_id(r.failed, g_ref[q].ordinal)) shared_with_failed = true;     // (two statements may name the same response file)
    if (has_id(r.finished_ok, g_ref[i].ordinal) && !shared_with_failed) VERIF_ASSERT(!g_tree->exists(g_ref[i].rspfile), "C16: the response file is removed after the command succeeds");
    if (has_id(r.failed, g_ref[i].ordinal)) { VFile* f = g_tree->find(g_ref[i].rspfile); VERIF_ASSERT(f && f->exists && f->is_text && f->text == g_ref[i].rspfile_content, "C16: the response file of a failed command is kept, with its content"); verif_reach("rspfile-kept"); } }
  return 0;
}
#elif defined(MODE_CRASH)
// ------------------------------------------------------------------------------------------------ C07
extern "C" int harness_main() {
  ir2c_global_ctors();
  const Scenario* sc = &kScenarios[SCENARIO];
  init_tree(sc);
#ifdef FROM_BUILT
  full_build(sc); user_operations(sc);
#endif
  InvocationOpts o; o.targets = split_words(sc->targets); o.run.parallelism = 1 + verif_choice("jobs_minus_1", 2);
#ifdef INTERRUPT
  o.run.may_interrupt = true;
  InvocationResult r = invoke(o);
  observe(r);
  if (r.interrupted) {
    VERIF_ASSERT(r.rc == 130, "C07: an interrupted ninja exits with status 130");
    bool cleaned = true;
    for (size_t i = 0; i < r.events.size(); i++) if (r.events[i].compare(0, 8, "touched ") == 0) {
      const RefEdge* e = ref_producer(r.events[i].substr(8));
      for (size_t k = 0; e && k < e->outs.size(); k++) cleaned = cleaned && !g_tree->exists(e->outs[k]);
    }
    VERIF_ASSERT(cleaned, "C07: on interrupt the outputs a running command had already modified are removed");
    VERIF_ASSERT(!g_tree->exists(".ninja_lock"), "C07: on interrupt the lock file is removed");
    verif_reach("interrupted");
  }
#else
  // the process dies right after the die_at-th persistence event of this invocation (0 = before the first)
  verif_vfs_die_after(verif_nondet("die_after_event", 0, VERIF_MAX_EVENTS));
  InvocationResult r = invoke(o);
  bool died = verif_vfs_frozen() != 0;
  g_dead = false; verif_vfs_freeze(0);
  g_tree->remove(".ninja_lock");        // whether the lock file survives is immaterial: ninja only touches and stats it
  verif_reach(died ? "died" : "survived");
  verif_obs(died);
#ifdef OPS_BEFORE_RECOVERY
  user_operations(sc);                  // the user goes on editing before running ninja again
#endif
#endif
  // recovery: the next invocation starts normally and, once it succeeds, the tree equals a clean build
  InvocationOpts o2; o2.targets = o.targets; o2.run.parallelism = 1;
  InvocationResult r2 = invoke(o2);
  observe(r2);
  VERIF_ASSERT(r2.parsed && r2.loaded && r2.added, "C07: the invocation after a killed or interrupted one starts normally");
  VERIF_ASSERT(r2.rc == 0, "C07: the invocation after a killed or interrupted one succeeds");
  if (r2.rc == 0) assert_clean_equal(o2.targets, "C07: once the recovery build succeeds the tree is identical to a clean build");
  if (r2.rc == 0) { bool stray = false; for (size_t i = 0; i < g_ref.size(); i++) if (!g_ref[i].rspfile.empty() && g_tree->exists(g_ref[i].rspfile)) stray = true;      // (a clean build leaves no response file behind)
    VERIF_ASSERT(!stray, "C07: once the recovery build succeeds the tree is identical to a clean build (no response file of a finished command is left behind)"); }
  InvocationResult r3 = invoke(o2);
  VERIF_ASSERT(r3.rc == 0 && r3.started.empty(), "C07: ... and the build after that has nothing to do");
  verif_reach("recovered");
  return 0;
}
#elif defined(MODE_STATUS)
// ------------------------------------------------------------------------------------------------ C20: what the real StatusPrinter / LinePrinter put on stdout
static int count_occurrences(const std::string& hay, const std::string& needle) { int n = 0; size_t p = 0; while ((p = hay.find(needle, p)) != std::string::npos) { n++; p += needle.size(); } return n; }
extern "C" int harness_main() {
  ir2c_global_ctors();
  const Scenario* sc = &kScenarios[SCENARIO];
  init_tree(sc);
#ifdef FROM_BUILT
  full_build(sc); user_operations(sc);
#endif
  InvocationOpts o; o.targets = symbolic_targets(sc, "request_target"); o.run.parallelism = 1 + verif_choice("jobs_minus_1", 3);
  o.real_status = true; o.run.prints_output = true;
#ifdef NO_PRINTS
  o.run.prints_output = false;      // commands are silent: only the status lines and counters are checked
#endif
#ifdef WITH_FAILURES
  o.run.may_fail = true; o.failures_allowed = 1 + verif_choice("keep_going_minus_1", 2);
#endif
#ifdef SMART_TERMINAL
  // stdout is a terminal: status lines overprint each other (\r ... ESC[K), are elided to the terminal width, command output starts on a new line
  static const int kCols[] = { 0, 24, 200 }; int cols = kCols[verif_choice("terminal_columns", 3)];
  setenv("TERM", "xterm", 1); verif_set_tty(1, cols);
#endif
#ifdef LONG_OUTPUT
  g_long_output = verif_bool("commands_print_more_than_one_pipe_read");
#endif
#ifdef OUTPUT_BYTES
  g_output_flavour = verif_choice("output_flavour", 3);      // plain text / ANSI colour sequences / NUL, control and high bytes
#endif
#ifdef CUSTOM_FORMAT
  // the progress prefix through $NINJA_STATUS (printf-like placeholders) or --status ($variables); both spell out every counter
  int fmt_kind = verif_choice("status_format_kind", 2);
  if (fmt_kind == 0) setenv("NINJA_STATUS", "[%s,%f,%t,%r,%u,%p,%%] ", 1);
  else o.status_option = "[$started,$finished,$total,$running,$remaining,$progress,%] $description";
#endif
#ifdef STAT_MAY_FAIL
  g_stat_may_fail = true;      // the bookkeeping after a command (re-stat of restat / deps outputs) may fail once with an I/O error: the build is abandoned, what finished commands printed is still shown
#endif
  verif_stdout_capture();
  InvocationResult r = invoke(o);
  VERIF_ASSERT(r.parsed && r.added, "the scenario manifest parses and the targets are known");
  const bool abandoned = g_stat_failed && r.rc != 0;      // commands still running when ninja gave up are killed, not reported
  if (abandoned) verif_reach("bookkeeping-failed");
  static char buf[65536]; long n = verif_stdout_copy(buf, sizeof buf); std::string out(buf, (size_t)n);
#ifdef SMART_TERMINAL
  verif_set_tty(0, 0);
  { // what is left on each terminal line: the text after the last carriage return, without the clear-to-end-of-line sequences
    std::string shown, line; bool elided_ok = true;
    for (size_t i = 0; i <= out.size(); i++) {
      if (i == out.size() || out[i] == '\n') { shown += line; if (i < out.size()) shown += '\n'; line.clear(); continue; }
      if (out[i] == '\r') { line.clear(); continue; }
      if (out[i] == 0x1B && i + 2 < out.size() && out[i + 1] == '[' && out[i + 2] == 'K') { i += 2; continue; }
      line += out[i];
    }
    // an overprinted status line never exceeds the terminal width
    if (cols) { size_t p = 0; while (p < out.size()) { size_t e = out.find_first_of("\r\n", p); if (e == std::string::npos) e = out.size(); std::string seg = out.substr(p, e - p); size_t k = seg.find("\x1B[K"); if (k != std::string::npos && seg.size() > 1 && seg[0] == '[') elided_ok = elided_ok && k <= (size_t)cols; p = e + 1; } }
    VERIF_ASSERT(elided_ok, "C20: a status line on a terminal is elided to the terminal width");
    out = shown; verif_reach("smart-terminal"); }
#endif
#ifdef DEBUG_EVENTS
  { std::string esc; for (size_t i = 0; i < out.size(); i++) { unsigned char c = out[i]; if (c == '\n') esc += "\\n\n     "; else if (c == '\r') esc += "\\r"; else if (c == 0x1B) esc += "\\e"; else esc += (char)c; } verif_note(("STDOUT: " + esc).c_str()); }
#endif
  // every block of command output appears exactly once, whole, directly after the status line of its command
  for (size_t i = 0; i < g_ref.size(); i++) {
    if (g_ref[i].phony) continue; const std::string& o0 = g_ref[i].outs[0]; const RefEdge& e = g_ref[i];
#ifdef SMART_TERMINAL
    std::string block = shown_block(o0, true);
#else
    std::string block = shown_block(o0, false);
#endif
    std::string errblock = "<<err " + o0 + ">>\n";
    int c1 = count_occurrences(out, "<<out " + o0 + ">>"), c2 = count_occurrences(out, block), e1 = count_occurrences(out, errblock);
    VERIF_ASSERT(c1 <= 1 && c1 == c2, "C20: a command's output is shown exactly once, as one contiguous block");
    VERIF_ASSERT(e1 <= 1, "C20: a failed command's output is shown exactly once");
    bool printed = false; for (size_t k = 0; k < r.events.size(); k++) if (r.events[k] == "printed " + o0) printed = true;
    if (c2 == 1) {
      // the line before the block is this command's status line: "[f/t] <command>"
      size_t p = out.find(block); size_t ls = p >= 2 ? out.rfind('\n', p - 2) : std::string::npos; std::string line = out.substr(ls == std::string::npos ? 0 : ls + 1, p - (ls == std::string::npos ? 0 : ls + 1));
      std::string want = e.command.substr(0, e.command.find(";rspfile=")); bool is_status = line.size() > 0 && line[0] == '[' && line.find("] " + want) != std::string::npos;
#ifdef SMART_TERMINAL
      { size_t dots = line.find("..."); if (!is_status && dots != std::string::npos && line[0] == '[') { std::string tail = line.substr(dots + 3); while (!tail.empty() && tail[tail.size() - 1] == '\n') tail.resize(tail.size() - 1); is_status = tail.size() <= want.size() && want.compare(want.size() - tail.size(), tail.size(), tail) == 0; } }
#endif
      VERIF_ASSERT(is_status, "C20: command output directly follows the status line of the command that produced it");
    }
    if (e1 == 1) {
      size_t p = out.find(errblock); std::string cmdline = e.command.substr(0, e.command.find(";rspfile=")) + "\n";
      bool ok = p >= cmdline.size() && out.compare(p - cmdline.size(), cmdline.size(), cmdline) == 0;
      size_t f = out.rfind("FAILED: [code=", p);
      ok = ok && f != std::string::npos && out.find(o0 + " ", f) != std::string::npos && out.find(o0 + " ", f) < p;
      VERIF_ASSERT(ok, "C20: for a failed command the output is preceded by its outputs, exit code and full command line");
    }
    (void)printed;
  }
  // counters: finished <= total on every status line, started == finished at the end, finished == total after success
  { size_t p = 0; bool counters = true; int last_f = 0, last_t = 0;
    while (p < out.size()) { size_t e = out.find('\n', p); if (e == std::string::npos) e = out.size(); std::string line = out.substr(p, e - p); p = e + 1;
      if (line.size() > 4 && line[0] == '[') { int f = 0, t = 0; size_t q = 1; while (q < line.size() && line[q] >= '0' && line[q] <= '9') f = f * 10 + (line[q++] - '0'); if (q < line.size() && line[q] == '/') { q++; while (q < line.size() && line[q] >= '0' && line[q] <= '9') t = t * 10 + (line[q++] - '0'); if (q < line.size() && line[q] == ']') { counters = counters && f <= t; last_f = f; last_t = t; } } } }
#ifdef CUSTOM_FORMAT
    { size_t q = 0; int lines = 0; bool consistent = true;
      while (q < out.size()) { size_t e = out.find('\n', q); if (e == std::string::npos) e = out.size(); std::string line = out.substr(q, e - q); q = e + 1;
        int v[6]; int k = 0; size_t i = 1; if (line.size() < 4 || line[0] != '[' || !(line[1] >= '0' && line[1] <= '9')) continue;
        while (k < 6 && i < line.size()) { while (i < line.size() && line[i] == ' ') i++; int x = 0; bool any = false; while (i < line.size() && line[i] >= '0' && line[i] <= '9') { x = x * 10 + (line[i++] - '0'); any = true; } if (!any) break; v[k++] = x; if (i < line.size() && line[i] == '%') i++; if (i < line.size() && line[i] == ',') i++; else break; }
        if (k < 6) { if (line.compare(0, 1, "[") == 0 && line.find(",") != std::string::npos) consistent = false; continue; }
        lines++;
        int st = v[0], fi = v[1], to = v[2], ru = v[3], un = v[4], pc = v[5];
        consistent = consistent && fi <= st && st <= to && un == to - st && ru >= st - fi && ru <= st - fi + 1 && ru <= o.run.parallelism && pc == (fi && to ? 100 * fi / to : 0);
        consistent = consistent && line.compare(i, 3, "%] ") == 0 && line.size() > i + 3; }      // the literal percent sign, the end of the prefix, then the description / command
      VERIF_ASSERT(consistent, "C20: with a custom status format every counter on every status line is consistent (finished <= started <= total, remaining, running, percentage)");
      if (lines) verif_reach(fmt_kind == 0 ? "ninja-status-format" : "status-option-format"); }
    unsetenv("NINJA_STATUS");
#endif
    VERIF_ASSERT(counters, "C20: progress counters never exceed the total");
    if (!abandoned) VERIF_ASSERT(r.status_started == r.status_finished, "C20: every started command is also reported finished");
    (void)last_f; (void)last_t;
    if (!abandoned) VERIF_ASSERT(r.sp_started == r.sp_finished && r.sp_finished <= r.sp_total, "C20: the status counters stay consistent (finished == started <= total)");
    else VERIF_ASSERT(r.sp_finished <= r.sp_started && r.sp_started <= r.sp_total, "C20: the status counters stay consistent (finished <= started <= total) when a build is abandoned");
    // (the last printed line may show fewer than the total when a restat command has just pruned the rest of the plan; the counters themselves must agree)
    if (r.rc == 0 && !r.up_to_date) VERIF_ASSERT(r.sp_finished == r.sp_total, "C20: after a successful build the number finished equals the total");
  }
  // nothing is lost: every command that printed has its block in the stream
  for (size_t k = 0; k < r.events.size(); k++) if (r.events[k].compare(0, 8, "printed ") == 0) VERIF_ASSERT(out.find("<<out " + r.events[k].substr(8) + ">>") != std::string::npos, "C20: output held back while the console was locked is shown afterwards, none of it lost");
  verif_reach(r.rc == 0 ? "success" : "failure"); if (out.find("<<out ") != std::string::npos) verif_reach("output-shown");
  verif_obs((long)out.size());
  return 0;
}
#elif defined(MODE_DRYRUN)
// ------------------------------------------------------------------------------------------------ C19: -n observes without disturbing, and tells the truth
static std::string tree_snapshot() {
  std::string t; char buf[96];
  for (size_t i = 0; i < g_tree->files.size(); i++) { VFile& f = g_tree->files[i]; if (!f.exists) continue; snprintf(buf, sizeof buf, "%ld/%ld;", (long)f.mtime, f.content); t += f.name + "=" + buf; }
  snprintf(buf, sizeof buf, "log=%lu deps=%lu", verif_file_size(".ninja_log"), verif_file_size(".ninja_deps")); t += buf;
  return t;
}
extern "C" int harness_main() {
  ir2c_global_ctors();
  const Scenario* sc = &kScenarios[SCENARIO];
  init_tree(sc);
  full_build(sc); user_operations(sc);
#ifdef LEFTOVERS
  // files a failed or interrupted earlier build may have left behind: the depfile of a deps=gcc statement, a kept response file
  for (size_t i = 0; i < 10 && sc->cmds[i].out; i++) { }
  if (verif_bool("stale_depfile_left")) g_tree->write_text("o.d", "o: c hdr\n");
  if (verif_bool("stale_rspfile_left")) g_tree->write_text("sub/x.rsp", "old");
#endif
  InvocationOpts o; o.targets = symbolic_targets(sc, "request_target"); o.run.parallelism = 1 + verif_choice("jobs_minus_1", 2);
  std::string before = tree_snapshot(); size_t ndirs = g_tree->dirs.size();
  InvocationOpts d = o; d.dry_run = true;
#ifdef LEFTOVERS
  g_tree->dirs.clear(); g_mkdir_may_fail = true;       // creating an output directory may fail during the dry run
#endif
  InvocationResult rd = invoke(d);
  g_mkdir_may_fail = false;
  VERIF_ASSERT(rd.parsed && rd.added, "the scenario manifest parses and the targets are known");
  std::string after = tree_snapshot();
  VERIF_ASSERT(rd.started.empty(), "C19: a dry run executes no build command");
  VERIF_ASSERT(before == after, "C19: a dry run leaves every source, output, depfile and both logs unchanged");
  if (rd.rc != 0) { verif_reach("dry-run-aborted"); return 0; }
  // the listing of the dry run against the real run from the same state
  InvocationResult rr = invoke(o);
  observe(rr);
  if (rr.rc == 0) {
    bool superset = true; for (size_t i = 0; i < rr.started.size(); i++) superset = superset && has_id(rd.status_started_edges, rr.started[i]);
    VERIF_ASSERT(superset, "C19: every command the real build runs was listed by the dry run");
    bool has_restat = false; for (size_t i = 0; i < g_ref.size(); i++) has_restat = has_restat || (g_ref[i].flags & KEEP_IF_SAME);
    if (!has_restat) VERIF_ASSERT(rd.status_started_edges.size() == rr.started.size(), "C19: without restat rules the dry run lists exactly the commands the real build runs");
    verif_reach(rr.started.empty() ? "nothing-to-do" : "compared");
  }
  return 0;
}
#elif defined(MODE_CYCLE)
// ------------------------------------------------------------------------------------------------ C17: cycles are diagnosed, and only real ones
// does the part of the graph needed for f (declared inputs of every kind; discovered ones only once they have been recorded) contain a cycle?
static bool dfs_cycle(const std::string& f, std::vector<std::string>* stack, std::vector<std::string>* done, bool with_extras, std::vector<std::string>* on_cycle) {
  for (size_t i = 0; i < done->size(); i++) if ((*done)[i] == f) return false;
  for (size_t i = 0; i < stack->size(); i++) if ((*stack)[i] == f) { for (size_t k = i; k < stack->size(); k++) on_cycle->push_back((*stack)[k]); return true; }
  const RefEdge* e = ref_producer(f); if (!e) { done->push_back(f); return false; }
  stack->push_back(f); bool cyc = false;
  std::vector<std::string> ins;
  for (size_t i = 0; i < (with_extras ? e->reads.size() : e->ndeclared); i++) ins.push_back(e->reads[i]);
  for (size_t i = 0; i < e->order_only.size(); i++) ins.push_back(e->order_only[i]);
  for (size_t i = 0; i < ins.size() && !cyc; i++) {
    // entering a statement through any of its outputs: the statement's other outputs are the same vertex
    const RefEdge* p = ref_producer(ins[i]); std::string rep = p ? p->outs[0] : ins[i];
    (void)rep; cyc = dfs_cycle(p ? p->outs[0] : ins[i], stack, done, with_extras, on_cycle);
  }
  stack->pop_back(); if (!cyc) done->push_back(f);
  return cyc;
}
static bool needs_cycle(const std::vector<std::string>& targets, bool with_extras, std::vector<std::string>* on_cycle) {
  std::vector<std::string> todo = targets, seen; bool cyc = false;
  for (size_t t = 0; t < todo.size() && !cyc; t++) {
    const RefEdge* p = ref_producer(todo[t]); std::vector<std::string> stack, done;
    cyc = dfs_cycle(p ? p->outs[0] : todo[t], &stack, &done, with_extras, on_cycle);
    // validations of everything reachable are further roots
    std::vector<std::string> cl; closure(todo[t], &cl);
    for (size_t i = 0; i < cl.size(); i++) { const RefEdge* e = ref_producer(cl[i]); if (!e) continue; for (size_t v = 0; v < e->validations.size(); v++) { bool have = false; for (size_t q = 0; q < todo.size(); q++) have = have || todo[q] == e->validations[v]; if (!have) todo.push_back(e->validations[v]); } }
  }
  return cyc;
}
// "dependency cycle: a -> b -> a": closed, and every hop is an input relation of the graph
static bool cycle_message_ok(const std::string& err) {
  size_t p = err.find("dependency cycle: "); if (p == std::string::npos) return false;
  std::string rest = err.substr(p + 18); std::vector<std::string> hops; size_t pos = 0;
  for (;;) { size_t a = rest.find(" -> ", pos); if (a == std::string::npos) { hops.push_back(rest.substr(pos)); break; } hops.push_back(rest.substr(pos, a - pos)); pos = a + 4; }
  if (hops.size() < 2 || hops.front() != hops.back()) return false;
  for (size_t i = 0; i + 1 < hops.size(); i++) {
    const RefEdge* e = ref_producer(hops[i]); if (!e) return false; bool is_input = false;
    for (size_t k = 0; k < e->reads.size(); k++) is_input = is_input || e->reads[k] == hops[i + 1];
    for (size_t k = 0; k < e->order_only.size(); k++) is_input = is_input || e->order_only[k] == hops[i + 1];
    if (!is_input) return false;
  }
  return true;
}
extern "C" int harness_main() {
  ir2c_global_ctors();
  const Scenario* sc = &kScenarios[SCENARIO];
  init_tree(sc);
  for (int inv = 0; inv < 2; inv++) {
    InvocationOpts o; o.targets = symbolic_targets(sc, "request_target"); o.run.parallelism = 1 + verif_choice("jobs_minus_1", 2);
    load_reference();
    std::vector<std::string> on_cycle;
    bool declared_cycle = needs_cycle(o.targets, false, &on_cycle);
    { // statements the scenario text itself puts on a cycle (independent of what ninja's parser made of them)
      std::vector<std::string> cl; for (size_t i = 0; i < o.targets.size(); i++) closure(o.targets[i], &cl);
#if SCENARIO != 23 && SCENARIO != 51
      for (size_t i = 0; i < cl.size(); i++) { const CmdSpec* cs = spec_for(cl[i]); if (cs && (cs->flags & EXPECT_CYCLE)) declared_cycle = true; }
#endif
    }
    std::vector<std::string> on_cycle2; bool any_cycle = needs_cycle(o.targets, true, &on_cycle2);
    // has every statement whose discovered inputs close the cycle already run once (so that its depfile / deps record exists)?
    bool recorded = true;
    for (size_t i = 0; i < g_ref.size(); i++) if (g_ref[i].reads.size() > g_ref[i].ndeclared) for (size_t k = 0; k < on_cycle2.size(); k++) if (g_ref[i].outs[0] == on_cycle2[k] && !(g_ref[i].ordinal < 16 && g_last[g_ref[i].ordinal].ran)) recorded = false;
    InvocationResult r = invoke(o);
    VERIF_ASSERT(r.parsed, "the scenario manifest parses");
    observe(r);
    bool says_cycle = r.err.find("dependency cycle") != std::string::npos;
#if SCENARIO == 23 || SCENARIO == 51
    // the dyndep file, built during this invocation, makes 'out' produce o2, which 'rout' (an input of 'out') reads: a cycle that only exists once dd is loaded
    { bool out_ran = false; for (size_t i = 0; i < g_ref.size(); i++) if (g_ref[i].outs[0] == "out" && has_id(r.started, g_ref[i].ordinal)) out_ran = true;
      bool rout_done_first = event_before(r.events, "ok rout", "ok dd");
      if (rout_done_first) {
        VERIF_ASSERT(!out_ran && r.rc != 0 && says_cycle, "C17: a cycle closed by a dyndep file loaded mid-build is diagnosed and none of its commands run (the other statement on the cycle had already finished)");
      } else {
        VERIF_ASSERT(!out_ran && r.rc != 0 && says_cycle, "C17: a cycle closed by a dyndep file loaded mid-build is diagnosed and none of its commands run (the other statement on the cycle was still running or not started)");
      }
      verif_reach("dyndep-cycle"); return 0; }
#endif
    if (declared_cycle) {
      VERIF_ASSERT((!r.added || r.rc != 0) && says_cycle, "C17: a dependency cycle in the part of the graph needed for the requested targets is diagnosed");
      VERIF_ASSERT(cycle_message_ok(r.err), "C17: the diagnostic spells out an actual, closed cycle");
      VERIF_ASSERT(r.started.empty(), "C17: no command is run when the needed graph has a cycle at scan time");
      verif_reach("cycle-diagnosed");
    } else if (!any_cycle) {
      VERIF_ASSERT(!says_cycle, "C17: an acyclic graph is never rejected as cyclic");
      VERIF_ASSERT(r.added && r.rc == 0, "C17: an acyclic graph builds");
      verif_reach("acyclic-built");
    } else {
      // a cycle closed only by discovered dependencies: once they have been recorded (second invocation) it must be diagnosed
      if (recorded) {
        if (says_cycle) { VERIF_ASSERT(cycle_message_ok(r.err), "C17: the diagnostic spells out an actual, closed cycle"); verif_reach("discovered-cycle-diagnosed"); }
        bool ran_on_cycle = false; for (size_t i = 0; i < g_ref.size(); i++) for (size_t k = 0; k < on_cycle2.size(); k++) if (g_ref[i].outs[0] == on_cycle2[k] && has_id(r.started, g_ref[i].ordinal)) ran_on_cycle = true;
        VERIF_ASSERT(says_cycle || !ran_on_cycle, "C17: once a depfile or the deps log closes a cycle no command on it is run without a diagnostic");
      }
    }
    VERIF_ASSERT(!r.stuck, "C17: ninja never ends with 'stuck' instead of a diagnostic");
    if (inv == 0 && verif_bool("edit_source_between")) { std::vector<std::string> src = split_words(sc->sources); edit_file(src[0]); }
    if (inv == 0 && sc->manifest[1]) { g_manifest_variant = verif_choice("manifest_variant", 2); if (g_manifest_variant) { // the project is reorganised: what used to be a source is now generated
        for (int i = 0; i < 16; i++) g_last[i].ran = g_last[i].ran; verif_reach("reorganised"); } }
  }
  return 0;
}
#elif defined(MODE_DEPFILE_BYTES)
// ------------------------------------------------------------------------------------------------ C13: arbitrary depfile bytes through both consumers (Builder::ExtractDeps for deps=gcc, ImplicitDepLoader::LoadDepFile)
#ifndef VERIF_N
#define VERIF_N 2
#endif
extern "C" int harness_main() {
  ir2c_global_ctors();
  const Scenario* sc = &kScenarios[SCENARIO];
  init_tree(sc);
  std::string bytes;
  if (verif_bool("mutated_valid_depfile")) { bytes = "o: c hdr \\\n x\n"; int pos = (int)verif_nondet("mutate_at", 0, (long)bytes.size() - 1); bytes[pos] = (char)verif_nondet("byte", 0, 255); verif_reach("mutated"); }
  else { int len = (int)verif_nondet("len", 0, VERIF_N); bytes.assign((size_t)len, 'x'); for (int i = 0; i < len; i++) bytes[i] = (char)verif_nondet("byte", 0, 255); verif_reach("arbitrary"); }
  g_depfile_override = &bytes;
  for (int inv = 0; inv < 2; inv++) {
    InvocationOpts o; o.targets = split_words(sc->targets); o.run.parallelism = 1;
    InvocationResult r = invoke(o);
    VERIF_ASSERT(r.parsed, "the scenario manifest parses");
    observe(r);
    VERIF_ASSERT(!r.stuck, "C06: ninja never gives up with 'stuck'");
    bool failed = !r.added || r.rc != 0;
    if (failed) { VERIF_ASSERT(!r.err.empty(), "C13: a depfile ninja cannot use is reported as an error"); verif_reach("rejected"); } else verif_reach("accepted");
  }
  return 0;
}
#elif defined(MODE_DYNDEP_BAD)
// ------------------------------------------------------------------------------------------------ C11: ill-formed dyndep files make the build fail
extern "C" int harness_main() {
  ir2c_global_ctors();
  const Scenario* sc = &kScenarios[SCENARIO];       // the dyndep scenario: dd is produced during the build, out binds it
  init_tree(sc);
  static const char* kValid = "ninja_dyndep_version = 1\nbuild out | out.imp: dyndep | h2\n";
  std::string text; bool must_fail = true, either = false;
  int kind = verif_choice("bad_kind", 10);
  if (kind == 0) {            // truncated at a symbolic byte
    int full = (int)strlen(kValid); int cut = (int)verif_nondet("cut", 0, full);
    text.assign(kValid, (size_t)cut);
    int stmt_end = (int)(strstr(kValid, ": dyndep") - kValid) + 8;     // "...: dyndep" is a complete statement (it merely says less)
    // complete prefixes: the whole file (with or without the final newline), or the statement without its implicit inputs
    if (cut == full) must_fail = false;
    if (cut == full - 1 || cut == stmt_end) either = true;       // a complete statement without its line end: ninja may accept or reject it
    verif_reach("truncated");
  }
  else if (kind == 1) text = "ninja_dyndep_version = 1\n";                                                          // omits the statement
  else if (kind == 2) text = "ninja_dyndep_version = 1\nbuild out | out.imp: dyndep | h2\nbuild out: dyndep\n";     // names an output twice
  else if (kind == 3) text = "ninja_dyndep_version = 1\nbuild out | h2: dyndep\n";                                   // claims an output another statement produces
  else if (kind == 4) text = "ninja_dyndep_version = 1\nbuild out | out.imp: dyndep | x\n";                          // closes a cycle (x is built from out)
  else if (kind == 5) text = "ninja_dyndep_version = 1\nbuild out | out.imp: dyndep | h2\nbuild x: dyndep\n";       // adds a statement without the binding
  else if (kind == 6) text = "build out | out.imp: dyndep | h2\n";                                                   // no version line
  else if (kind == 7) text = "ninja_dyndep_version = 1\nbuild out | out.imp: dyndep | h2\nbuild nosuch: dyndep\n";  // unknown output
#if SCENARIO == 15
  else if (kind == 8) text = "ninja_dyndep_version = 1\nbuild out | out.imp: dyndep | h2\nbuild out2: dyndep\n";        // adds a statement for an output bound to another dyndep file
#endif
  else { text = kValid; must_fail = false; }
  g_dyndep_override = &text;
  InvocationOpts o; o.targets = split_words(sc->targets); o.run.parallelism = 1 + verif_choice("jobs_minus_1", 2);
  bool preexisting = verif_bool("dyndep_file_already_present");
  if (preexisting) g_tree->write_text("dd", text);
  InvocationResult r = invoke(o);
  observe(r);
  bool failed = !r.added || r.rc != 0;
  if (either) return 0;
  if (must_fail) { VERIF_ASSERT(failed && !r.err.empty(), "C11: a missing, malformed, truncated or inconsistent dyndep file makes the build fail with an error"); verif_reach("rejected"); }
  else { VERIF_ASSERT(!failed, "C11: a well-formed dyndep file is accepted"); verif_reach("accepted"); }
  return 0;
}
#else
// ------------------------------------------------------------------------------------------------ histories: C01 C02 C03 C04 C10 C11
extern "C" int harness_main() {
  ir2c_global_ctors();
  const Scenario* sc = &kScenarios[SCENARIO];
  init_tree(sc);
#if defined(CHECK_C10)
  g_msg_fresh = "C10: a generated dependency known from depfile/deps log is brought up to date before the command runs, whatever else is out of date";
#elif defined(CHECK_C11)
  g_msg_fresh = "C11: inputs discovered through a dyndep file order the build like inputs written in the manifest";
#endif
#ifdef PREBUILD_SEQ
  { // the targets built one after the other, as a user without a manifest path between them would have to
    std::vector<std::string> menu = split_words(sc->targets);
    for (size_t i = 0; i < menu.size(); i++) { InvocationOpts o0; o0.targets.push_back(menu[i]); InvocationResult r0 = invoke(o0); VERIF_ASSERT(r0.added && r0.rc == 0, "set-up: sequential initial builds succeed"); }
  }
#endif
  for (int inv = 0; inv < HISTORY; inv++) {
#ifdef PREBUILD_SEQ
    user_operations(sc);
#else
    if (inv > 0) user_operations(sc);
#endif
    InvocationOpts o;
    o.targets = symbolic_targets(sc, "request_target");
    o.run.parallelism = 1 + verif_choice("jobs_minus_1", 2);
    o.failures_allowed = 1;
#if defined(CHECK_C04) || defined(CHECK_C10) || defined(CHECK_C11)
    o.run.check_inputs_fresh = true;
#endif
#ifdef MIDRUN_EDITS
    if (inv < HISTORY - 1) { o.run.edit_during_run = true; o.run.check_inputs_fresh = false; }     // (what "up to date" means changes under a build whose sources are edited while it runs)
#endif
#ifdef HISTORY_FAIL
    if (inv < HISTORY - 1) { o.run.may_fail = true; o.run.failed_touch = true; o.failures_allowed = 1 + verif_choice("keep_going_minus_1", 2); }
#endif
#ifdef CHECK_C03
    load_reference(); MinRef mr; std::vector<int> expect = mr.expected(o.targets);
#endif
    InvocationResult r = invoke(o);
    VERIF_ASSERT(r.parsed, "the scenario manifest parses");
    if (!r.parsed || !r.added) { verif_reach("add-target-error"); continue; }
    observe(r);
    VERIF_ASSERT(!r.stuck, "C06: ninja never gives up with 'stuck'");
#ifdef MIDRUN_EDITS
    { bool mid = false; for (size_t i = 0; i < r.events.size(); i++) mid = mid || r.events[i].compare(0, 8, "midedit ") == 0;
      if (mid) { verif_reach("edited-while-running"); continue; } }     // a source changed under this build: nothing is claimed for it, the NEXT successful build must pick the edit up
#endif
    if (r.rc == 0) {
      verif_reach(r.up_to_date ? "nothing-to-do" : "built");
      if (inv > 0 && !r.up_to_date) verif_reach("incremental-build");
      if (scenario_regenerates()) {      // the reference is the manifest a from-scratch configure + build would use
        int have = g_manifest_variant; g_manifest_variant = regen_variant(); load_reference(); if (have != g_manifest_variant) verif_reach("manifest-not-regenerated"); else if (r.events.size() && r.events[0].compare(0, 17, "start build.ninja") == 0) verif_reach("manifest-regenerated");
        g_manifest_variant = have; }
#ifdef CHECK_C01
      assert_clean_equal(o.targets, "C01: after a successful build every requested target and everything it depends on equals the from-scratch build");
#endif
#ifdef CHECK_C10
      assert_clean_equal(o.targets, "C10: a change to a dependency known from depfile/deps log re-runs the command exactly as a declared implicit input would");
#endif
#ifdef CHECK_C11
      assert_clean_equal(o.targets, "C11: a build driven by dyndep files reaches the same final state as the manifest with that information written in");
#endif
#ifdef CHECK_C03
      if (r.failed.empty()) {
        A03(same_set(r.started, expect), "C03: exactly the commands affected by the change are run");
        verif_reach("minimality-checked");
      }
#endif
#ifdef CHECK_C08
      { // what this session recorded is in the log on disk, whoever else rewrote the log meanwhile
        BuildLog log; std::string lerr; log.Load(".ninja_log", &lerr); bool recorded = true;
        for (size_t i = 0; i < g_ref.size(); i++) if (!g_ref[i].phony && has_id(r.finished_ok, g_ref[i].ordinal)) { BuildLog::LogEntry* le = log.LookupByOutput(g_ref[i].outs[0]);
          recorded = recorded && le != NULL && le->command_hash == BuildLog::LogEntry::HashCommand(g_ref[i].command); }
        VERIF_ASSERT(recorded, "C08: the latest record of every command that succeeded in this session is in the log, also when -t restat rewrote the log during the build");
        verif_reach("records-checked"); }
#endif
#ifdef CHECK_C02
      InvocationOpts o2 = o; o2.run.may_fail = false;
      InvocationResult r2 = invoke(o2);
      A02(r2.added && r2.rc == 0 && r2.started.empty() && r2.up_to_date, "C02: immediately after a successful build the same request has nothing to do");
      InvocationResult r3 = invoke(o2);
      A02(r3.added && r3.rc == 0 && r3.started.empty() && r3.up_to_date, "C02: ... and neither has the run after that");
      verif_reach("converged-checked");
#endif
    } else {
      verif_reach("failed-build");
#ifdef CHECK_C10
      VERIF_ASSERT(r.err.find("missing and no known rule") == std::string::npos || !g_only_discovered_missing, "C10: a discovered dependency that has disappeared causes a rebuild, not an error");
#endif
    }
  }
  return 0;
}
#endif

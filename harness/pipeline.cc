// pipeline.cc — full-pipeline harnesses (one binary per MODE and SCENARIO).
#include "scenarios.h"
#ifndef HISTORY
#define HISTORY 2
#endif
#ifdef CHECK_C01
#define A01(c, m) VERIF_ASSERT(c, m)
#else
#define A01(c, m) (void)0
#endif
#ifdef CHECK_C02
#define A02(c, m) VERIF_ASSERT(c, m)
#else
#define A02(c, m) (void)0
#endif

static void user_operations(const Scenario* sc) {
  // any subset of the sources (incl. headers only known through depfiles) is edited
  std::vector<std::string> src = split_words(sc->sources);
  for (size_t i = 0; i < src.size(); i++) if (verif_bool("edit_source")) { edit_file(src[i]); verif_note(("edit " + src[i]).c_str()); }
  // at most one output, depfile or log is deleted
  std::vector<std::string> outs;
  for (size_t i = 0; i < g_tree->files.size(); i++) { VFile& f = g_tree->files[i]; bool is_src = false; for (size_t k = 0; k < src.size(); k++) is_src = is_src || src[k] == f.name; if (!is_src && f.exists && f.name != ".ninja_lock") outs.push_back(f.name); }
  int del = verif_choice("delete_output", (int)outs.size() + 1);
  if (del > 0) { g_tree->remove(outs[del - 1]); verif_note(("delete " + outs[del - 1]).c_str()); }
  // the manifest is switched to another variant (changed command line, added statement ...)
  int nvar = 1; while (nvar < 3 && sc->manifest[nvar]) nvar++;
  if (nvar > 1) { g_manifest_variant = verif_choice("manifest_variant", nvar); }
}

extern "C" int harness_main() {
  ir2c_global_ctors();
  const Scenario* sc = &kScenarios[SCENARIO];
  init_tree(sc);
  for (int inv = 0; inv < HISTORY; inv++) {
    if (inv > 0) user_operations(sc);
    InvocationOpts o;
    o.targets = symbolic_targets(sc, "request_target");
    o.run.parallelism = 1 + verif_choice("jobs_minus_1", 2);
    o.failures_allowed = 1;
#ifdef HISTORY_FAIL
    if (inv < HISTORY - 1) { o.run.may_fail = true; o.run.failed_touch = true; o.failures_allowed = 1 + verif_choice("keep_going_minus_1", 2); }
#endif
    InvocationResult r = invoke(o);
    VERIF_ASSERT(r.parsed, "the scenario manifest parses");
    if (!r.parsed || !r.added) { verif_reach("add-target-error"); continue; }
#ifdef DEBUG_EVENTS
    printf("inv %d rc=%d up_to_date=%d err=%s\n", inv, r.rc, r.up_to_date, r.err.c_str());
    for (size_t i = 0; i < r.events.size(); i++) printf("  %s\n", r.events[i].c_str());
    for (size_t i = 0; i < g_tree->files.size(); i++) printf("  file %s exists=%d mtime=%ld content=%ld\n", g_tree->files[i].name.c_str(), g_tree->files[i].exists, (long)g_tree->files[i].mtime, g_tree->files[i].content);
#endif
    verif_obs(r.rc); verif_obs((long)r.started.size());
    for (size_t i = 0; i < r.started.size(); i++) verif_obs(r.started[i]);
    if (r.rc == 0) {
      verif_reach(r.up_to_date ? "nothing-to-do" : "built");
      if (inv > 0 && !r.up_to_date) verif_reach("incremental-build");
      A01(true, "C01: reached");
#ifdef CHECK_C01
      assert_clean_equal(o.targets, "C01: after a successful build every requested target and everything it depends on equals the from-scratch build");
#endif
#ifdef CHECK_C02
      InvocationOpts o2 = o; o2.run.may_fail = false;
      InvocationResult r2 = invoke(o2);
      A02(r2.added && r2.rc == 0 && r2.started.empty() && r2.up_to_date, "C02: immediately after a successful build the same request has nothing to do");
      InvocationResult r3 = invoke(o2);
      A02(r3.added && r3.rc == 0 && r3.started.empty() && r3.up_to_date, "C02: ... and neither has the run after that");
      verif_reach("converged-checked");
#endif
    } else verif_reach("failed-build");
  }
  return 0;
}

// C16 (names): $in / $out / $in_newline as /bin/sh reads them.
// Real code: GetShellEscapedString, EdgeEnv::LookupVariable/MakePathList, Edge::EvaluateCommand, EvalString::Evaluate, State::AddIn/AddOut.
#include "graph.h"
#include "state.h"
#include "util.h"
#include "eval_env.h"
#include "verif.h"
#include "shmodel.h"
#ifndef VERIF_NAMES
#define VERIF_NAMES 2
#endif
#ifndef VERIF_LEN
#define VERIF_LEN 2
#endif

static std::string sym_name(int maxlen) {
  int len = (int)verif_nondet("name_len", 1, maxlen);
  std::string s((size_t)len, 'x');
  for (int i = 0; i < len; i++) { long b = verif_nondet("name_byte", 1, 255); VERIF_ASSUME(b != '\n'); s[i] = (char)b; }
  return s;
}
static bool all_safe(const std::string& s) {
  for (size_t i = 0; i < s.size(); i++) { char c = s[i];
    if (!(('A' <= c && c <= 'Z') || ('a' <= c && c <= 'z') || ('0' <= c && c <= '9') || c == '_' || c == '+' || c == '-' || c == '.' || c == '/')) return false; }
  return true;
}
static void check_words(const std::string& text, const std::vector<std::string>& names, const char* m_unsafe, const char* m_words) {
  std::vector<std::string> words;
  bool ok = sh_split(text, &words);
  VERIF_ASSERT(ok, m_unsafe);
  if (!ok) return;
  bool same = words.size() == names.size();
  for (size_t i = 0; same && i < names.size(); i++) same = words[i] == names[i];
  VERIF_ASSERT(same, m_words);
#ifdef VERIF_NATIVE
  std::vector<std::string> real; bool rok = real_sh_split(text, &real);
  __CPROVER_assert(rok && real == words, "W: the sh model agrees with the real /bin/sh on this text");
#endif
}

// $in_newline separates with newlines (it is meant for response files): every line must be one sh word equal to the name
static void check_lines(const std::string& text, const std::vector<std::string>& names) {
  size_t pos = 0; int k = 0; bool shape = true; int n = (int)names.size();
  while (shape) {
    size_t nl = text.find('\n', pos);
    std::string piece = text.substr(pos, nl == std::string::npos ? std::string::npos : nl - pos);
    if (k >= n) { shape = false; break; }
    std::vector<std::string> one(1, names[k]);
    check_words(piece, one, "C16: $in_newline line contains something /bin/sh would interpret", "C16: each $in_newline line is read by /bin/sh as exactly that file name");
    k++;
    if (nl == std::string::npos) break;
    pos = nl + 1;
  }
  VERIF_ASSERT(shape && k == n, "C16: $in_newline has one line per explicit input");
}

extern "C" int harness_main() {
  ir2c_global_ctors();
#ifdef MODE_ESCAPE
  // the kernel alone, one name
  std::string name = sym_name(VERIF_LEN);
  std::string out = "pre";                     // the function appends
  GetShellEscapedString(name, &out);
  VERIF_ASSERT(out.size() >= 3 + name.size() && out.compare(0, 3, "pre") == 0, "C16: escaping appends to the result");
  std::string esc = out.substr(3);
  std::vector<std::string> names(1, name);
  check_words(esc, names, "C16: escaped name contains something /bin/sh would interpret", "C16: /bin/sh reads the escaped name as exactly one word equal to the name");
  if (all_safe(name)) { VERIF_ASSERT(esc == name, "C16: a name that needs no quoting is passed verbatim"); verif_reach("verbatim"); }
  else verif_reach("quoted");
  if (name.find('\'') != std::string::npos) verif_reach("has-quote");
  for (size_t i = 0; i < esc.size(); i++) verif_obs((unsigned char)esc[i]);
#else
  // whole lists through the edge environment
  State state;
  Rule* rule = new Rule("r");
  EvalString cmd;
#if defined(MODE_OUT)
  cmd.AddSpecial("out");
#elif defined(MODE_NEWLINE)
  cmd.AddSpecial("in_newline");
#else
  cmd.AddSpecial("in");
#endif
  rule->AddBinding("command", cmd);
#ifdef MODE_BOTH
  // one statement using $in on its command line and $in_newline in its response file (the usual shape of a link step), and $out
  EvalString rsp; rsp.AddSpecial("in_newline"); rule->AddBinding("rspfile_content", rsp);
  EvalString desc; desc.AddSpecial("out"); rule->AddBinding("description", desc);
#endif
  state.bindings_.AddRule(std::unique_ptr<const Rule>(rule));
  Edge* e = state.AddEdge(rule);
  std::string err;
  int n = (int)verif_nondet("names", 1, VERIF_NAMES);
  std::vector<std::string> names;
  for (int i = 0; i < n; i++) {
    names.push_back(sym_name(VERIF_LEN));
  }
#if defined(MODE_OUT)
  // Node objects are created directly: interning symbolic names in State's hash table would make the bucket index symbolic
  for (int i = 0; i < n; i++) { Node* nd = new Node(names[i], 0); nd->set_in_edge(e); e->outputs_.push_back(nd); }
  state.AddOut(e, "implicit_out", 0, &err); e->implicit_outs_ = 1;
  state.AddIn(e, "src", 0);
#else
  for (int i = 0; i < n; i++) { Node* nd = new Node(names[i], 0); nd->AddOutEdge(e); e->inputs_.push_back(nd); }
  state.AddIn(e, "implicit dep", 0); e->implicit_deps_ = 1;
  state.AddIn(e, "order only", 0); e->order_only_deps_ = 1;
  state.AddOut(e, "o", 0, &err);
#endif
#ifdef MODE_BOTH
  { // whatever was evaluated before (and however often), each variable expands to its own list
    std::vector<std::string> outs(1, "o");
    for (int round = 0; round < 3; round++) {
      int which = verif_choice("evaluate_which", 3);
      if (which == 0) { std::string t = e->EvaluateCommand(false); check_words(t, names, "C16: substituted list contains something /bin/sh would interpret", "C16: /bin/sh reads the substituted list as exactly the file names, in order"); verif_reach("command"); }
      else if (which == 1) { std::string t = e->GetBinding("rspfile_content"); check_lines(t, names); verif_reach("rspfile_content"); }
      else { std::string t = e->GetBinding("description"); check_words(t, outs, "C16: substituted list contains something /bin/sh would interpret", "C16: /bin/sh reads the substituted list as exactly the file names, in order"); verif_reach("description"); }
    }
    // the command as the build log hashes it / the runner starts it: command line and response-file content in one string
    std::string full = e->EvaluateCommand(true); size_t sep = full.find(";rspfile=");
    VERIF_ASSERT(sep != std::string::npos, "C16: EvaluateCommand(incl_rsp_file) carries the response-file content");
    if (sep != std::string::npos) { check_words(full.substr(0, sep), names, "C16: substituted list contains something /bin/sh would interpret", "C16: /bin/sh reads the substituted list as exactly the file names, in order"); check_lines(full.substr(sep + 9), names); }
    verif_reach(n > 1 ? "several-names" : "one-name");
    return 0;
  }
#endif
  std::string text = e->EvaluateCommand(false);
#if defined(MODE_NEWLINE)
  check_lines(text, names);
  verif_reach(n > 1 ? "several-names" : "one-name");
  for (size_t i = 0; i < text.size(); i++) verif_obs((unsigned char)text[i]);
  return 0;
#endif
  check_words(text, names, "C16: substituted list contains something /bin/sh would interpret", "C16: /bin/sh reads the substituted list as exactly the file names, in order");
  verif_reach(n > 1 ? "several-names" : "one-name");
  for (size_t i = 0; i < text.size(); i++) verif_obs((unsigned char)text[i]);
#endif
  return 0;
}

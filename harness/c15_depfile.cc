// C15: depfiles in the Makefile dialect GCC/Clang emit are read back as exactly the encoded names.
// Real code: DepfileParser::Parse (re2c scanner + bookkeeping).
#include "depfile_parser.h"
#include "verif.h"
#include <string>
#include <vector>
#ifndef VERIF_T
#define VERIF_T 1
#endif
#ifndef VERIF_D
#define VERIF_D 2
#endif
#ifndef VERIF_L
#define VERIF_L 2
#endif

// file names over printable ASCII and high bytes (property's alphabet); not ending in '\\' or ':' (not representable in Make syntax)
static std::string sym_name(const char* what, int maxlen) {
  int len = (int)verif_nondet(what, 1, maxlen);
  std::string s((size_t)len, 'x');
  for (int i = 0; i < len; i++) { long b = verif_nondet("byte", 0x20, 0xFF); VERIF_ASSUME(b != 0x7F); s[i] = (char)b; }
  VERIF_ASSUME(s[len - 1] != '\\' && s[len - 1] != ':');
  for (int i = 0; i + 1 < len; i++) VERIF_ASSUME(!(s[i] == '\\' && s[i + 1] == ':'));   // backslash-colon inside a name: compilers disagree, excluded
  return s;
}
// GCC's mkdeps munge(): backslashes before a space are doubled and the space escaped, '#' -> '\#', '$' -> '$$'; style 1 additionally writes ':' as '\:'
static void encode(const std::string& name, int colon_style, std::string* out) {
  for (size_t i = 0; i < name.size(); i++) {
    char c = name[i];
    if (c == ' ') { for (size_t j = i; j > 0 && name[j - 1] == '\\'; j--) out->push_back('\\'); out->push_back('\\'); out->push_back(' '); }
    else if (c == '#') { out->push_back('\\'); out->push_back('#'); }
    else if (c == '$') { out->push_back('$'); out->push_back('$'); }
    else if (c == ':' && colon_style == 1) { out->push_back('\\'); out->push_back(':'); }
    else out->push_back(c);
  }
}
static bool eq(const StringPiece& p, const std::string& s) { return p.len_ == s.size() && memcmp(p.str_, s.data(), s.size()) == 0; }
static void add_unique(std::vector<std::string>* v, const std::string& s) { for (size_t i = 0; i < v->size(); i++) if ((*v)[i] == s) return; v->push_back(s); }

extern "C" int harness_main() {
  int colon_style = verif_choice("colon_style", 2);
  const char* eol = "\n"; if (verif_bool("crlf")) eol = "\r\n";
  int nt = (int)verif_nondet("targets", 1, VERIF_T), nd = (int)verif_nondet("deps", 1, VERIF_D);
  std::vector<std::string> targets, deps;
#ifdef CONCRETE_TARGET
  targets.push_back("obj/o.o"); nt = 1;
#else
  for (int i = 0; i < nt; i++) targets.push_back(sym_name("target_len", VERIF_L));
#endif
#ifdef CONCRETE_DEP
  deps.push_back("src/d.h"); nd = 1;
#else
  for (int i = 0; i < nd; i++) deps.push_back(sym_name("dep_len", VERIF_L));
#endif
  // a dependency must not equal a target (then it would legitimately be "an input that has inputs")
  for (int i = 0; i < nt; i++) for (int j = 0; j < nd; j++) VERIF_ASSUME(targets[i] != deps[j]);
  std::string text; std::vector<std::string> want_outs, want_ins;
#ifdef MODE_REJECT
  // (a) no ':' at all  (b) a dependency reappears as a target with a dependency of its own
  if (verif_bool("reject_kind")) {
    for (int i = 0; i < nd; i++) { if (i) text += " "; encode(deps[i], 0, &text); }
    bool has_colon = text.find(':') != std::string::npos;
    VERIF_ASSUME(!has_colon);
    text += eol;
    std::string err; DepfileParser p; std::string copy = text;
    bool ok = p.Parse(&copy, &err);
    VERIF_ASSERT(!ok && !err.empty(), "C15: a depfile without ':' is rejected");
    verif_reach("no-colon");
  } else {
    encode(targets[0], colon_style, &text); text += ": "; encode(deps[0], colon_style, &text); text += eol;
    // the second rule names the earlier dependency as a target, in one of the shapes compilers/generators write
    int shape = verif_choice("second_rule_shape", 5);
    if (shape == 0) { encode(deps[0], colon_style, &text); text += ": "; }                               // X: e
    else if (shape == 1) { encode(deps[0], colon_style, &text); text += " other.c: "; }                   // X other.c: e
    else if (shape == 2) { encode(deps[0], colon_style, &text); text += " : "; }                          // X : e
    else if (shape == 3) { text += "other.c "; encode(deps[0], colon_style, &text); text += ": "; }       // other.c X: e
    else { encode(deps[0], colon_style, &text); text += " \\"; text += eol; text += " other.c: "; }       // X \<newline> other.c: e
    std::string extra = sym_name("extra_len", VERIF_L);
    VERIF_ASSUME(extra != deps[0] && extra != targets[0]);
    encode(extra, colon_style, &text); text += eol;
    std::string err; DepfileParser p; std::string copy = text;
    bool ok = p.Parse(&copy, &err);
    VERIF_ASSERT(!ok && !err.empty(), "C15: a dependency reappearing as a target with its own dependencies is rejected");
    verif_reach("input-with-inputs");
  }
  return 0;
#endif
  // layout
  for (int i = 0; i < nt; i++) { if (i) text += " "; encode(targets[i], colon_style, &text); add_unique(&want_outs, targets[i]); }
  text += ":";
  int trailing = verif_choice("trailing_blank", 2);
  for (int i = 0; i < nd; i++) {
    int lay = verif_choice("layout", 3);
    if (lay == 0) text += " ";
    else if (lay == 1) { text += " \\"; text += eol; text += "  "; }
    else { text += eol; encode(targets[0], colon_style, &text); text += ": "; }     // a further rule for the same target
    encode(deps[i], colon_style, &text); add_unique(&want_ins, deps[i]);
  }
  if (verif_bool("repeat_first_dep")) { text += " "; encode(deps[0], colon_style, &text); verif_reach("repeated-dep"); }
  if (trailing) text += " ";
  if (!verif_bool("no_final_newline")) text += eol;
  std::string err; DepfileParser p;
  std::string copy = text;                 // Parse mutates its input
  bool ok = p.Parse(&copy, &err);
  VERIF_ASSERT(ok, "C15: a well-formed compiler depfile is accepted");
  if (ok) {
    bool outs_ok = p.outs_.size() == want_outs.size();
    for (size_t i = 0; outs_ok && i < want_outs.size(); i++) outs_ok = eq(p.outs_[i], want_outs[i]);
    VERIF_ASSERT(outs_ok, "C15: targets are read back as exactly the encoded names");
    bool ins_ok = p.ins_.size() == want_ins.size();
    for (size_t i = 0; ins_ok && i < want_ins.size(); i++) ins_ok = eq(p.ins_[i], want_ins[i]);
    VERIF_ASSERT(ins_ok, "C15: dependencies are read back as exactly the encoded names, each once");
    verif_obs((long)p.outs_.size()); verif_obs((long)p.ins_.size());
    for (size_t i = 0; i < p.ins_.size(); i++) for (size_t k = 0; k < p.ins_[i].len_; k++) verif_obs((unsigned char)p.ins_[i].str_[k]);
    verif_reach("accepted");
  }
  return 0;
}

#!/usr/bin/env python3
"""seeded_table.py: print the markdown table 'which job catches which seeded change' from seeded/*/meta.json (pasted into DESIGN.md section 3.1)"""
import json, os, glob, collections
rows = collections.OrderedDict()
for d in sorted(glob.glob('/verif/seeded/C*-*')):
    m = json.load(open(d + '/meta.json')); pid, var = os.path.basename(d).split('-')
    rows.setdefault(pid, []).append((var, m.get('detected_job') or 'MISSED'))
print('| property | seeded change → detecting job(s) |'); print('|---|---|')
for pid, vs in rows.items():
    print('| %s | %s |' % (pid, '; '.join('%s → %s' % (v, j.replace(pid + '/', '') if j != 'MISSED' else '**missed**') for v, j in vs)))

#!/usr/bin/env python3-vt
"""forkexplore: explore the path tree of one linked module with fork() at symbolic decisions.

At a decision with several feasible alternatives the running interpreter forks: the parent continues with the first alternative,
each child continues *the same execution* with another one (nothing is re-executed).  A bounded number of processes may exist at
once (children beyond that bound are deferred as decision prefixes and re-executed later by the process that met them); a counting
semaphore limits how many run at a time.  Every process writes the results of the paths it completed to a file; the master
aggregates them.  The exploration is complete iff no process was cut short by the deadline and no deferred prefix is left.
"""
import os, sys, time, pickle, collections, signal, ctypes, multiprocessing as mp, traceback, tempfile, shutil
import symex

class Forker:
    def __init__(s, outdir, run_tokens, max_procs, deadline):
        s.outdir = outdir; s.sem = mp.Semaphore(run_tokens); s.procs = mp.Value('i', 1); s.max_procs = max_procs
        s.outstanding = mp.Value('i', 1); s.deadline = deadline; s.is_child = False; s.forks = mp.Value('i', 0)
    def try_fork(s, eng):
        """returns 'child' in the new process, 'parent' in the forking one, None if no process could be created"""
        if time.time() > s.deadline: return None
        with s.procs.get_lock():
            if s.procs.value >= s.max_procs: return None
            s.procs.value += 1
        with s.outstanding.get_lock(): s.outstanding.value += 1
        with s.forks.get_lock(): s.forks.value += 1
        pid = os.fork()
        if pid != 0: return 'parent'
        # child
        s.is_child = True
        eng.work = []; eng.results = []; eng.stats = collections.Counter()
        s.sem.acquire()                      # wait for a run slot
        return 'child'
    def finish(s, eng, entry_done=True):
        pass

def _flush(forker, eng, final=False):
    if not eng.results and not final: return
    path = os.path.join(forker.outdir, '%d_%d.pkl' % (os.getpid(), int(time.time() * 1e6)))
    with open(path + '.tmp', 'wb') as f: pickle.dump(dict(results=eng.results, stats=dict(eng.stats), leftover=len(eng.work) if final else 0), f)
    os.rename(path + '.tmp', path)
    eng.results = []; eng.stats = collections.Counter()

def _run_tree(eng, entry, forker):
    """runs in the root process and, after a fork, in every child (each with its own work list)"""
    try:
        while eng.work and time.time() < forker.deadline:
            p = eng.work.pop()
            r = eng.run_path(entry, p)
            eng.results.append(r)
            if len(eng.results) >= 16: _flush(forker, eng)
    except NotImplementedError as e:
        eng.results.append(dict(end='engine-error', detail='unsupported construct: %s\n%s' % (e, traceback.format_exc()[-1500:]), steps=0, decisions=0, new_decisions=0, violations=[], reached=[], asserts={}, nondets=0))
    except BaseException as e:
        eng.results.append(dict(end='engine-error', detail='%s: %s\n%s' % (type(e).__name__, e, traceback.format_exc()[-3000:]), steps=0, decisions=0, new_decisions=0, violations=[], reached=[], asserts={}, nondets=0))
    _flush(forker, eng, final=True)
    forker.sem.release()
    with forker.procs.get_lock(): forker.procs.value -= 1
    with forker.outstanding.get_lock(): forker.outstanding.value -= 1

def explore(ll, entry='harness_main', workers=16, max_paths=200000, time_limit=600, engine_opts=None, seed=0, stop_on_inconclusive=False, max_procs=600):
    t0 = time.time(); deadline = t0 + time_limit
    out = dict(paths=0, ends=collections.Counter(), violations=[], reached=collections.Counter(), asserts=collections.Counter(),
               steps=0, decisions=0, solver_calls=0, solver_time=0.0, samples=[], vectors=[], max_steps_path=0, engine_errors=[],
               inconclusive=[], inconclusive_vectors=[], pending=0, forks=0)
    outdir = tempfile.mkdtemp(prefix='vfork_')
    try: ctypes.CDLL('libc.so.6').prctl(36, 1, 0, 0, 0)      # PR_SET_CHILD_SUBREAPER: orphaned explorers are reaped here
    except Exception: pass
    forker = Forker(outdir, workers, max_procs, deadline)
    root = os.fork()
    if root == 0:
        try:
            os.setpgid(0, 0)
            eng = symex.Engine(ll, **(engine_opts or {})); eng.forker = forker; eng.work = [[]]; eng.results = []
            forker.sem.acquire()
            _run_tree(eng, entry, forker)
        finally:
            os._exit(0)
    def absorb():
        for fn in sorted(os.listdir(outdir)):
            if not fn.endswith('.pkl'): continue
            fp = os.path.join(outdir, fn)
            try:
                with open(fp, 'rb') as f: d = pickle.load(f)
            except Exception: continue
            os.unlink(fp)
            out['pending'] += d['leftover']
            out['solver_calls'] += d['stats'].get('solver_calls', 0); out['solver_time'] += d['stats'].get('solver_time', 0.0)
            for pr in d['results']:
                if pr['end'] == 'engine-error': out['engine_errors'].append(pr['detail']); continue
                out['paths'] += 1; out['ends'][pr['end']] += 1; out['steps'] += pr['steps']; out['decisions'] += pr['new_decisions']
                out['max_steps_path'] = max(out['max_steps_path'], pr['steps'])
                for l in pr['reached']: out['reached'][l] += 1
                for a, k in pr['asserts'].items(): out['asserts'][a] += k
                out['violations'].extend(pr['violations'])
                if pr['end'] == 'inconclusive': out['inconclusive'].append(pr['detail']); out['inconclusive_vectors'].append(pr.get('vector', []))
                if 'vector' in pr and pr['end'] != 'inconclusive':
                    if len(out['samples']) < 6 or (pr['violations'] and len(out['samples']) < 12):
                        out['samples'].append(dict(inputs=pr['vector'], observed=pr.get('obs', [])[:40], notes=pr.get('notes', [])[:12], end=pr['end'], stdout=pr.get('stdout', '')[:200]))
                    if len(out['vectors']) < 400 and (out['paths'] % 7 == 1 or len(out['vectors']) < 40):
                        out['vectors'].append(dict(vector=pr['vector'], obs=pr.get('obs', []), asserts_failed=[v['msg'] for v in pr['violations']], reached=pr['reached']))
    killed = False
    try:
        while True:
            no_children = False
            try:
                while True:
                    pid, _ = os.waitpid(-1, os.WNOHANG)
                    if pid == 0: break
            except ChildProcessError: no_children = True
            absorb()
            if forker.outstanding.value <= 0: break
            if no_children:
                # every explorer process is gone although some never reported back (killed, crashed hard): never a success
                time.sleep(0.2); absorb()
                if forker.outstanding.value > 0: out['engine_errors'].append('%d explorer process(es) died without reporting (out of memory / killed?)' % forker.outstanding.value)
                break
            if out['engine_errors'] or (stop_on_inconclusive and out['inconclusive']) or out['paths'] >= max_paths or time.time() > deadline + 30:
                killed = True; break
            time.sleep(0.02)
    finally:
        if killed or forker.outstanding.value > 0:
            try: os.killpg(root, signal.SIGKILL)
            except Exception: pass
            out['pending'] += max(1, forker.outstanding.value)
        time.sleep(0.05)
        try:
            while True:
                pid, _ = os.waitpid(-1, os.WNOHANG)
                if pid == 0: break
        except ChildProcessError: pass
        absorb()
        shutil.rmtree(outdir, ignore_errors=True)
    out['forks'] = forker.forks.value
    out['wall'] = time.time() - t0
    out['complete'] = out['pending'] == 0 and not out['engine_errors'] and out['ends']['inconclusive'] == 0 and not killed
    return out

if __name__ == '__main__':
    r = explore(sys.argv[1], time_limit=float(sys.argv[2]) if len(sys.argv) > 2 else 600)
    r.pop('vectors'); r.pop('samples'); vs = r.pop('violations')
    print(r); print(len(vs), 'violations')

#!/usr/bin/env python3-vt
"""natdbg: build one job's harness natively and run it on a vector (debugging aid).  natdbg.py PROP JOB [--tier T] [--define D]... v1 v2 ..."""
import sys, os, tempfile, shutil, argparse
sys.path.insert(0, os.path.dirname(os.path.abspath(__file__)))
import irbuild, catalog, check
ap = argparse.ArgumentParser(); ap.add_argument('prop'); ap.add_argument('job'); ap.add_argument('--tier', default='quick'); ap.add_argument('--define', action='append', default=[]); ap.add_argument('vec', nargs='*')
a = ap.parse_args()
job = [j for j in catalog.CHECKS[a.prop]['jobs'] if j['name'] == a.job][0]
d = tempfile.mkdtemp(prefix='natdbg_')
try:
    b = irbuild.Builder(d)
    exe = b.native('dbg', job['harness'], job.get('units', irbuild.PIPELINE), check.job_defines(job, a.tier) + a.define, stubs=job.get('stubs', True), iquote=job.get('iquote', False), support=job.get('support', ()), stubs_defines=job.get('stubs_defines', ()), wrap=job.get('wrap', ()))
    os.environ['VERIF_DEBUG'] = '1'
    n = check.run_native(exe, [('v', int(x)) for x in a.vec])
    print(n['full']); print('rc', n['rc'], 'stderr:', n['err'])
finally: shutil.rmtree(d, ignore_errors=True)

#!/bin/bash
# confirm_keep.sh <prop> <variant> : confirm a delivered change in its scratch worktree ($MUT_BASE/<prop>) and copy it to seeded/<prop>-<variant>
prop=$1; var=$2; base=${MUT_BASE:-/tmp/mut5}
res=$(bash /verif/engine/confirm_mutant.sh $base/$prop $base/$prop/_deliver/$var | tail -1)
echo "$prop-$var $res"
case "$res" in *'"ok":true'*) MUT_BASE=$base MUT_WAVE=${MUT_WAVE:-5} python3 /verif/engine/keep_mutant.py $prop $var "$res";; esac

#!/usr/bin/env python3-vt
"""sweep_mutants: apply every seeded change of /verif/seeded to a scratch worktree of /repo (never to /repo itself) and run the job that is
recorded as detecting it (seeded/<id>/meta.json: detected_job = "Cxx/job[,Cyy/job2]"), in the tier the job belongs to.  Writes seeded/SWEEP.json.
usage: sweep_mutants.py [ids...]"""
import os, sys, json, subprocess, shutil, time
HERE = os.path.dirname(os.path.abspath(__file__)); VERIF = os.path.dirname(HERE); sys.path.insert(0, HERE)
import catalog
WT = '/tmp/verif_mutrepo'
def sh(cmd, **kw): return subprocess.run(cmd, shell=True, stdout=subprocess.PIPE, stderr=subprocess.STDOUT, text=True, **kw)
def main():
    ids = sys.argv[1:] or sorted(d for d in os.listdir(os.path.join(VERIF, 'seeded')) if os.path.isdir(os.path.join(VERIF, 'seeded', d)))
    sh('git -C /repo worktree remove --force %s; git -C /repo worktree prune' % WT)
    r = sh('git -C /repo worktree add --detach %s HEAD' % WT); assert r.returncode == 0, r.stdout
    out = {}
    try:
        for mid in ids:
            d = os.path.join(VERIF, 'seeded', mid); meta = json.load(open(os.path.join(d, 'meta.json')))
            jobs = [x.strip() for x in (meta.get('detected_job') or '').split(',') if x.strip()]
            sh('git -C %s checkout -q -- . ; git -C %s clean -fdq src' % (WT, WT))
            a = sh('git -C %s apply %s/patch.diff || git -C %s apply --3way %s/patch.diff' % (WT, d, WT, d))
            if a.returncode != 0: out[mid] = dict(status='patch does not apply', detail=a.stdout[-300:]); print(mid, out[mid]['status'], flush=True); continue
            res = []
            for pj in jobs or [meta['property'] + '/']:
                prop, job = pj.split('/')
                tier = 'quick'
                if job:
                    js = [j for j in catalog.CHECKS[prop]['jobs'] if j['name'] == job]
                    if not js: res.append(dict(job=pj, rc=None, note='no such job')); continue
                    if js[0].get('thorough_only'): tier = 'thorough'
                t0 = time.time()
                c = sh('VERIF_REPO=%s timeout 1500 python3-vt %s/check.py %s --tier %s %s --no-evidence' % (WT, HERE, prop, tier, ('--job ' + job) if job else ''))
                viol = [l for l in c.stdout.splitlines() if l.startswith('VIOLATION')]
                res.append(dict(job=pj, tier=tier, rc=c.returncode, violations=len(viol), secs=round(time.time() - t0), tail=c.stdout.splitlines()[-1:] ))
                if c.returncode == 1 and viol: break
            caught = any(r_.get('rc') == 1 and r_.get('violations') for r_ in res)
            out[mid] = dict(status='caught' if caught else 'MISSED', runs=res)
            print(mid, out[mid]['status'], [(r_['job'], r_.get('tier'), r_.get('rc'), r_.get('secs')) for r_ in res], flush=True)
            json.dump(out, open(os.path.join(VERIF, 'seeded', 'SWEEP.json'), 'w'), indent=1)
    finally:
        sh('git -C /repo worktree remove --force %s; git -C /repo worktree prune' % WT)
if __name__ == '__main__': main()

#!/bin/bash
# confirm_mutant.sh <worktree> <deliver-dir> : verify a seeded change independently:
#   with the patch: builds, whole ninja_test passes, demo FAILS; without: demo PASSES. Prints one JSON line.
wt=$1; d=$2
cd "$wt" || exit 9
git checkout -q -- src
[ -d _build ] || cmake -G Ninja -B _build -DCMAKE_BUILD_TYPE=RelWithDebInfo -DCMAKE_CXX_FLAGS=-Wno-error >/dev/null 2>&1
git apply "$d/patch.diff" || { echo "{\"ok\":false,\"why\":\"patch does not apply\"}"; exit 1; }
cmake --build _build -j8 >/tmp/confirm_build.log 2>&1; b1=$?
tests=$(./_build/ninja_test 2>&1 | tail -3 | tr '\n' ' ' | tr -d '"')
./_build/ninja_test >/dev/null 2>&1; t1=$?
timeout 600 bash "$d/run.sh" "$wt" >/tmp/confirm_demo_with.log 2>&1; dw=$?
git checkout -q -- src
cmake --build _build -j8 >/tmp/confirm_build2.log 2>&1; b2=$?
timeout 600 bash "$d/run.sh" "$wt" >/tmp/confirm_demo_without.log 2>&1; dwo=$?
ok=false; [ $b1 -eq 0 ] && [ $t1 -eq 0 ] && [ $dw -ne 0 ] && [ $b2 -eq 0 ] && [ $dwo -eq 0 ] && ok=true
echo "{\"ok\":$ok,\"build_with\":$b1,\"tests_with\":$t1,\"tests_tail\":\"$tests\",\"demo_with_patch_rc\":$dw,\"demo_without_patch_rc\":$dwo}"

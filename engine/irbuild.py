#!/usr/bin/env python3-vt
"""irbuild: regenerate LLVM IR (and, for replay, native objects) from /repo's current working tree.

Every check calls this on every run; nothing is cached across runs.  Inside one run the
per-unit results are shared between the jobs of that check (scratch directory removed on exit).
"""
import os, subprocess, sys, hashlib, concurrent.futures as cf

REPO = os.environ.get('VERIF_REPO', '/repo')
SRC = os.path.join(REPO, 'src')
VERIF = os.path.dirname(os.path.dirname(os.path.abspath(__file__)))
SUPPORT = os.path.join(VERIF, 'support')
HARNESS = os.path.join(VERIF, 'harness')

# the translation units of libninja on POSIX (mirrors CMakeLists.txt; re2c outputs are the checked-in files)
LIBNINJA = ['build_log', 'build', 'clean', 'clparser', 'dyndep', 'dyndep_parser', 'debug_flags', 'deps_log',
            'disk_interface', 'edit_distance', 'elide_middle', 'eval_env', 'graph', 'graphviz', 'jobserver', 'json',
            'line_printer', 'manifest_parser', 'metrics', 'missing_deps', 'parser', 'real_command_runner', 'state',
            'status_printer', 'string_piece_util', 'util', 'version', 'depfile_parser', 'lexer',
            'subprocess-posix', 'jobserver-posix']
# units that the full-pipeline harnesses link (everything except process / terminal / timing back ends, which are cut points)
PIPELINE = ['build_log', 'build', 'clean', 'clparser', 'dyndep', 'dyndep_parser', 'debug_flags', 'deps_log', 'edit_distance',
            'eval_env', 'graph', 'manifest_parser', 'parser', 'state', 'string_piece_util', 'util', 'version',
            'depfile_parser', 'lexer', 'jobserver', 'elide_middle', 'json', 'line_printer', 'status_printer', 'missing_deps',
            'graphviz', 'disk_interface']

CXXFLAGS = ['-std=c++17', '-O1', '-DNDEBUG', '-DUSE_PPOLL=1', '-fno-exceptions', '-fno-rtti', '-fno-vectorize',
            '-fno-slp-vectorize', '-fno-unroll-loops', '-fno-builtin-memchr', '-Wno-everything', '-Werror=extra-tokens']

def run(cmd, **kw):
    r = subprocess.run(cmd, stdout=subprocess.PIPE, stderr=subprocess.STDOUT, text=True, **kw)
    if r.returncode != 0:
        raise BuildError('command failed (%d): %s\n%s' % (r.returncode, ' '.join(cmd), r.stdout[-4000:]))
    return r.stdout

class BuildError(Exception): pass

class Builder:
    def __init__(s, scratch):
        s.dir = scratch; s.ll = {}; s.obj = {}
        os.makedirs(scratch, exist_ok=True)

    # ---- IR
    def _unit_ll(s, unit):
        out = os.path.join(s.dir, unit + '.ll')
        run(['clang++-14'] + CXXFLAGS + ['-I', SRC, '-include', os.path.join(SUPPORT, 'noextern.h'), '-S', '-emit-llvm',
             os.path.join(SRC, unit + '.cc'), '-o', out])
        return out
    def units_ll(s, units):
        todo = [u for u in units if u not in s.ll]
        with cf.ThreadPoolExecutor(16) as ex:
            for u, p in zip(todo, ex.map(s._unit_ll, todo)): s.ll[u] = p
        return [s.ll[u] for u in units]
    def support_ll(s, name, defines=()):
        key = 'support:' + name + ':' + ','.join(defines)
        if key in s.ll: return s.ll[key]
        src = os.path.join(SUPPORT, name)
        out = os.path.join(s.dir, 'support_' + hashlib.md5(key.encode()).hexdigest()[:8] + '.ll')
        if name.endswith('.c'):
            run(['clang-14', '-O1', '-fno-vectorize', '-fno-slp-vectorize', '-fno-unroll-loops', '-Wno-everything', '-S', '-emit-llvm', src, '-o', out] + ['-D' + d for d in defines])
        else:
            run(['clang++-14'] + CXXFLAGS + ['-I', SRC, '-include', os.path.join(SUPPORT, 'noextern.h'), '-S', '-emit-llvm', src, '-o', out] + ['-D' + d for d in defines])
        s.ll[key] = out; return out
    def harness_ll(s, harness, defines=(), iquote=False):
        key = 'h:' + harness + ':' + ','.join(defines)
        if key in s.ll: return s.ll[key]
        out = os.path.join(s.dir, 'h_' + hashlib.md5(key.encode()).hexdigest()[:10] + '.ll')
        inc = ['-iquote', SRC] if iquote else ['-I', SRC]
        run(['clang++-14'] + CXXFLAGS + inc + ['-I', HARNESS, '-include', os.path.join(SUPPORT, 'noextern.h'), '-S', '-emit-llvm',
             os.path.join(HARNESS, harness), '-o', out] + ['-D' + d for d in defines] + ['-DVERIF_REPO_SRC="%s"' % SRC, '-DVERIF_NINJA_CC="%s/ninja.cc"' % SRC])
        s.ll[key] = out; return out
    def link(s, name, harness, units, defines=(), stubs=True, iquote=False, entry='harness_main', support=(), stubs_defines=()):
        """-> path of the linked, internalized module for one job"""
        lls = [s.harness_ll(harness, defines, iquote)] + s.units_ll(units) + [s.support_ll('libstdcxx_models.c')]
        if stubs: lls.append(s.support_ll('stubs.cc', tuple(stubs_defines)))
        for x in support: lls.append(s.support_ll(x))
        linked = os.path.join(s.dir, name + '.linked.ll'); final = os.path.join(s.dir, name + '.ll')
        run(['llvm-link-14', '-S'] + lls + ['-o', linked])
        run(['opt-14', '-S', '-internalize', '-internalize-public-api-list=' + entry, '-globaldce', linked, '-o', final])
        os.unlink(linked)
        return final

    # ---- native (replay and cross-validation): the same harness against g++-compiled real sources
    def _unit_obj(s, unit):
        out = os.path.join(s.dir, unit + '.o')
        run(['g++', '-std=c++17', '-O1', '-g', '-DNDEBUG', '-DUSE_PPOLL=1', '-w', '-I', SRC, '-c', os.path.join(SRC, unit + '.cc'), '-o', out] + s.native_flags)
        return out
    def native(s, name, harness, units, defines=(), stubs=True, iquote=False, sanitize=False, support=(), stubs_defines=(), wrap=()):
        s.native_flags = ['-fsanitize=address,undefined', '-fno-sanitize-recover=undefined'] if sanitize else []
        tag = 'san_' if sanitize else ''
        todo = [u for u in units if tag + u not in s.obj]
        def one(u):
            out = os.path.join(s.dir, tag + u + '.o')
            run(['g++', '-std=c++17', '-O1', '-g', '-DNDEBUG', '-DUSE_PPOLL=1', '-w', '-I', SRC, '-c', os.path.join(SRC, u + '.cc'), '-o', out] + s.native_flags)
            return out
        with cf.ThreadPoolExecutor(16) as ex:
            for u, p in zip(todo, ex.map(one, todo)): s.obj[tag + u] = p
        exe = os.path.join(s.dir, tag + name + '.native')
        inc = ['-iquote', SRC] if iquote else ['-I', SRC]
        srcs = [os.path.join(HARNESS, harness), os.path.join(SUPPORT, 'native_driver.cc')]
        if stubs: srcs.append(os.path.join(SUPPORT, 'stubs.cc'))
        for x in support:
            if x.endswith('.c'):
                o = os.path.join(s.dir, tag + x + '.o'); run(['gcc', '-O1', '-g', '-w', '-c', os.path.join(SUPPORT, x), '-o', o] + s.native_flags); srcs.append(o)
            else: srcs.append(os.path.join(SUPPORT, x))
        run(['g++', '-std=c++17', '-O1', '-g', '-DNDEBUG', '-DUSE_PPOLL=1', '-DVERIF_NATIVE', '-w'] + inc + ['-I', HARNESS] + ['-D' + d for d in list(defines) + list(stubs_defines)]
            + ['-DVERIF_REPO_SRC="%s"' % SRC, '-DVERIF_NINJA_CC="%s/ninja.cc"' % SRC] + srcs + [s.obj[tag + u] for u in units] + s.native_flags + ['-no-pie', '-Wl,--unresolved-symbols=ignore-all', '-Wl,--wrap=fopen,--wrap=fclose,--wrap=fwrite,--wrap=fprintf,--wrap=fflush,--wrap=setvbuf,--wrap=ftell,--wrap=fseek,--wrap=unlink,--wrap=rename,--wrap=truncate,--wrap=exit,--wrap=isatty,--wrap=ioctl' + ''.join(',--wrap=' + w for w in wrap), '-o', exe])
        return exe

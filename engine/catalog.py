"""catalog: which harness jobs decide which property, with the bounds of each tier."""
from irbuild import PIPELINE

CHECKS = {}
NOTES = 'Every check rebuilds LLVM IR from /repo/src on each run (no source hooks). exit 0 = all paths within the stated bounds explored and no assertion can fail; 1 = solver counterexample reproduced natively; 2 = inconclusive (budget); 3 = machinery problem (harness no longer builds, interpreter/native disagreement).'

CHECKS['C14'] = dict(
    title='path canonicalisation equals the reference normal form',
    level_text='Bounded symbolic execution of the real CanonicalizePath (LLVM IR from src/util.cc): every NUL-free byte string up to the length bound is covered by a path whose condition the solver has checked; on each path the solver is asked for an input that makes the result differ from a reference normaliser, grow, or change under a second application. Out-of-bounds accesses are checked on an exact-size buffer.',
    level_note='Trusted: clang-14 IR generation, the IR interpreter (cross-checked per run by re-running sampled paths natively), z3, the 20-line reference normaliser, engine models of memchr/memmove. Bound: length <= 6 (quick) / 8 (thorough).',
    assumptions=['paths are non-empty and NUL-free (the manifest parser rejects empty paths before canonicalising)',
                 'POSIX build (no backslash separators, slash_bits == 0)',
                 'bound: all byte strings up to the stated length; longer paths are outside the claim',
                 'libc memchr/memmove are modelled by the engine'],
    jobs=[dict(name='canon', harness='c14_canon.cc', units=['util'], stubs=False,
               reach=['resolves-to-dot', 'leading-updir', 'absolute', 'shortened'],
               quick=dict(defines=['VERIF_N=6'], bounds='every NUL-free byte string of length 1..6', limits=dict(time=600)),
               thorough=dict(defines=['VERIF_N=8'], bounds='every NUL-free byte string of length 1..8', limits=dict(time=3000, max_paths=2000000)))])

_C16_UNITS = ['util', 'graph', 'state', 'eval_env', 'string_piece_util', 'edit_distance']
CHECKS['C16'] = dict(
    title='file names and response files reach commands intact',
    level_text='Bounded symbolic execution of the real GetShellEscapedString and Edge::EvaluateCommand ($in, $out, $in_newline through EdgeEnv::MakePathList) on symbolic file names; on every path the solver is asked for a name for which a POSIX-sh field-splitting model reads the substituted text as anything but exactly the names. The sh model is itself checked against the real /bin/sh on the solver-produced witnesses of every run.',
    level_note='Trusted: IR generation and interpreter (cross-checked natively per run), z3, the 30-line sh field-splitting model (compared with the real /bin/sh on sampled vectors each run). Names exclude NUL and newline. Bounds: names per list and bytes per name as stated per job; /bin/sh itself and posix_spawn are not symbolically executed.',
    assumptions=['file names contain neither NUL nor newline', 'bounds on name length and list length as stated per job', '/bin/sh follows POSIX field splitting and quoting (model validated against the installed /bin/sh on sampled witnesses)'],
    jobs=[dict(name='escape', harness='c16_escape.cc', units=_C16_UNITS, defines=['MODE_ESCAPE'], reach=['verbatim', 'quoted', 'has-quote'],
               quick=dict(defines=['VERIF_LEN=3'], bounds='one name, every byte string of length 1..3 without NUL/newline'),
               thorough=dict(defines=['VERIF_LEN=5'], bounds='one name, every byte string of length 1..5 without NUL/newline', limits=dict(time=3000, max_paths=2000000))),
          dict(name='in', harness='c16_escape.cc', units=_C16_UNITS, defines=['MODE_IN'], reach=['several-names', 'one-name'],
               quick=dict(defines=['VERIF_NAMES=2', 'VERIF_LEN=2'], bounds='$in with 1..2 explicit inputs (plus one implicit and one order-only input that must not appear), names of 1..2 bytes'),
               thorough=dict(defines=['VERIF_NAMES=3', 'VERIF_LEN=2'], bounds='$in with 1..3 explicit inputs, names of 1..2 bytes', limits=dict(time=3000, max_paths=2000000))),
          dict(name='out', harness='c16_escape.cc', units=_C16_UNITS, defines=['MODE_OUT'], reach=['several-names', 'one-name'],
               quick=dict(defines=['VERIF_NAMES=2', 'VERIF_LEN=2'], bounds='$out with 1..2 explicit outputs (plus one implicit output that must not appear), names of 1..2 bytes'),
               thorough=dict(defines=['VERIF_NAMES=3', 'VERIF_LEN=2'], bounds='$out with 1..3 explicit outputs, names of 1..2 bytes', limits=dict(time=3000, max_paths=2000000))),
          dict(name='in_newline', harness='c16_escape.cc', units=_C16_UNITS, defines=['MODE_NEWLINE'], reach=['several-names', 'one-name'],
               quick=dict(defines=['VERIF_NAMES=2', 'VERIF_LEN=2'], bounds='$in_newline with 1..2 explicit inputs, names of 1..2 bytes'),
               thorough=dict(defines=['VERIF_NAMES=3', 'VERIF_LEN=2'], bounds='$in_newline with 1..3 explicit inputs, names of 1..2 bytes', limits=dict(time=3000, max_paths=2000000)))])

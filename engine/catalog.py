"""catalog: which harness jobs decide which property, with the bounds of each tier."""
from irbuild import PIPELINE

CHECKS = {}
NOTES = 'Every check rebuilds LLVM IR from /repo/src on each run (no source hooks). exit 0 = all paths within the stated bounds explored and no assertion can fail; 1 = solver counterexample reproduced natively; 2 = inconclusive (budget); 3 = machinery problem (harness no longer builds, interpreter/native disagreement).'

CHECKS['C14'] = dict(
    title='path canonicalisation equals the reference normal form',
    level_text='Bounded symbolic execution of the real CanonicalizePath (LLVM IR from src/util.cc): every NUL-free byte string up to the length bound is covered by a path whose condition the solver has checked; on each path the solver is asked for an input that makes the result differ from a reference normaliser, grow, or change under a second application. Out-of-bounds accesses are checked on an exact-size buffer.',
    level_note='Trusted: clang-14 IR generation, the IR interpreter (cross-checked per run by re-running sampled paths natively), z3, the 20-line reference normaliser, engine models of memchr/memmove. Bound: length <= 6 (quick) / 8 (thorough).',
    assumptions=['paths are non-empty and NUL-free (the manifest parser rejects empty paths before canonicalising)',
                 'POSIX build (no backslash separators, slash_bits == 0)',
                 'bound: all byte strings up to the stated length; longer paths are outside the claim',
                 'libc memchr/memmove are modelled by the engine'],
    jobs=[dict(name='canon', harness='c14_canon.cc', units=['util'], stubs=False,
               reach=['resolves-to-dot', 'leading-updir', 'absolute', 'shortened'],
               quick=dict(defines=['VERIF_N=6'], bounds='every NUL-free byte string of length 1..6', limits=dict(time=600)),
               thorough=dict(defines=['VERIF_N=8'], bounds='every NUL-free byte string of length 1..8', limits=dict(time=3000, max_paths=2000000)))])

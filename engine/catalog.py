"""catalog: which harness jobs decide which property, with the bounds of each tier."""
from irbuild import PIPELINE

CHECKS = {}
NOTES = 'Every check rebuilds LLVM IR from /repo/src on each run (no source hooks). exit 0 = all paths within the stated bounds explored and no assertion can fail; 1 = solver counterexample reproduced natively; 2 = inconclusive (budget); 3 = machinery problem (harness no longer builds, interpreter/native disagreement).'

CHECKS['C14'] = dict(
    title='path canonicalisation equals the reference normal form',
    level_text='Bounded symbolic execution of the real CanonicalizePath (LLVM IR from src/util.cc): every NUL-free byte string up to the length bound is covered by a path whose condition the solver has checked; on each path the solver is asked for an input that makes the result differ from a reference normaliser, grow, or change under a second application. Out-of-bounds accesses are checked on an exact-size buffer.',
    level_note='Trusted: clang-14 IR generation, the IR interpreter (cross-checked per run by re-running sampled paths natively), z3, the 20-line reference normaliser, engine models of memchr/memmove. Bound: length <= 6 (quick) / 8 (thorough).',
    assumptions=['paths are non-empty and NUL-free (the manifest parser rejects empty paths before canonicalising)',
                 'POSIX build (no backslash separators, slash_bits == 0)',
                 'bound: all byte strings up to the stated length; longer paths are outside the claim',
                 'libc memchr/memmove are modelled by the engine'],
    jobs=[dict(name='canon', harness='c14_canon.cc', units=['util'], stubs=False,
               reach=['resolves-to-dot', 'leading-updir', 'absolute', 'shortened'],
               quick=dict(defines=['VERIF_N=6'], bounds='every NUL-free byte string of length 1..6', limits=dict(time=600)),
               thorough=dict(defines=['VERIF_N=8'], bounds='every NUL-free byte string of length 1..8', limits=dict(time=3000, max_paths=2000000)))])

_C16_UNITS = ['util', 'graph', 'state', 'eval_env', 'string_piece_util', 'edit_distance']
CHECKS['C16'] = dict(
    title='file names and response files reach commands intact',
    level_text='Bounded symbolic execution of the real GetShellEscapedString and Edge::EvaluateCommand ($in, $out, $in_newline through EdgeEnv::MakePathList) on symbolic file names; on every path the solver is asked for a name for which a POSIX-sh field-splitting model reads the substituted text as anything but exactly the names. The sh model is itself checked against the real /bin/sh on the solver-produced witnesses of every run.',
    level_note='Trusted: IR generation and interpreter (cross-checked natively per run), z3, the 30-line sh field-splitting model (compared with the real /bin/sh on sampled vectors each run). Names exclude NUL and newline. Bounds: names per list and bytes per name as stated per job; /bin/sh itself and posix_spawn are not symbolically executed.',
    assumptions=['file names contain neither NUL nor newline', 'bounds on name length and list length as stated per job', '/bin/sh follows POSIX field splitting and quoting (model validated against the installed /bin/sh on sampled witnesses)'],
    jobs=[dict(name='escape', harness='c16_escape.cc', units=_C16_UNITS, defines=['MODE_ESCAPE'], reach=['verbatim', 'quoted', 'has-quote'],
               quick=dict(defines=['VERIF_LEN=3'], bounds='one name, every byte string of length 1..3 without NUL/newline'),
               thorough=dict(defines=['VERIF_LEN=5'], bounds='one name, every byte string of length 1..5 without NUL/newline', limits=dict(time=3000, max_paths=2000000))),
          dict(name='in', harness='c16_escape.cc', units=_C16_UNITS, defines=['MODE_IN'], reach=['several-names', 'one-name'],
               quick=dict(defines=['VERIF_NAMES=2', 'VERIF_LEN=2'], bounds='$in with 1..2 explicit inputs (plus one implicit and one order-only input that must not appear), names of 1..2 bytes'),
               thorough=dict(defines=['VERIF_NAMES=3', 'VERIF_LEN=2'], bounds='$in with 1..3 explicit inputs, names of 1..2 bytes', limits=dict(time=3000, max_paths=2000000))),
          dict(name='out', harness='c16_escape.cc', units=_C16_UNITS, defines=['MODE_OUT'], reach=['several-names', 'one-name'],
               quick=dict(defines=['VERIF_NAMES=2', 'VERIF_LEN=2'], bounds='$out with 1..2 explicit outputs (plus one implicit output that must not appear), names of 1..2 bytes'),
               thorough=dict(defines=['VERIF_NAMES=3', 'VERIF_LEN=2'], bounds='$out with 1..3 explicit outputs, names of 1..2 bytes', limits=dict(time=3000, max_paths=2000000))),
          dict(name='in_newline', harness='c16_escape.cc', units=_C16_UNITS, defines=['MODE_NEWLINE'], reach=['several-names', 'one-name'],
               quick=dict(defines=['VERIF_NAMES=2', 'VERIF_LEN=2'], bounds='$in_newline with 1..2 explicit inputs, names of 1..2 bytes'),
               thorough=dict(defines=['VERIF_NAMES=3', 'VERIF_LEN=2'], bounds='$in_newline with 1..3 explicit inputs, names of 1..2 bytes', limits=dict(time=3000, max_paths=2000000)))])

CHECKS['C15'] = dict(
    title='compiler depfiles are read back as the same file names',
    level_text='Bounded symbolic execution of the real DepfileParser::Parse (re2c scanner and rule bookkeeping) on depfile text produced by an encoder implementing GCC/Clang escaping from symbolic file names and a symbolic layout; on every path the solver is asked for names/layout for which outs_/ins_ differ from the encoded names, and for ill-formed depfiles that are accepted.',
    level_note='Trusted: IR generation and interpreter (cross-checked natively per run), z3, the 12-line encoder modelled on GCC mkdeps munge(). Names: bytes 0x20..0xFF except DEL, not ending in backslash or colon, no backslash-colon inside (not representable / compilers disagree). Bounds per job.',
    assumptions=['names over printable ASCII and high bytes; not ending in a backslash or a colon; no backslash directly before a colon', 'a dependency is not also a target of the same depfile (except in the rejection job)', 'bounds on the number and length of names as stated per job'],
    jobs=[dict(name='roundtrip1', harness='c15_depfile.cc', units=['depfile_parser'], stubs=False, defines=['CONCRETE_TARGET'], reach=['accepted', 'repeated-dep'],
               quick=dict(defines=['VERIF_D=1', 'VERIF_L=3'], bounds='target obj/o.o, 1 dependency of 1..3 symbolic bytes, layouts {same line, continuation, further rule} x {LF, CRLF} x trailing blank x final newline x repeated dependency x colon style'),
               thorough=dict(defines=['VERIF_D=1', 'VERIF_L=4'], bounds='1 dependency of 1..4 symbolic bytes, all layouts', limits=dict(time=3000, max_paths=3000000))),
          dict(name='roundtrip2', harness='c15_depfile.cc', units=['depfile_parser'], stubs=False, defines=['CONCRETE_TARGET'], reach=['accepted', 'repeated-dep'],
               quick=dict(defines=['VERIF_D=2', 'VERIF_L=1'], bounds='target obj/o.o, 1..2 dependencies of 1 symbolic byte, all layouts'),
               thorough=dict(defines=['VERIF_D=3', 'VERIF_L=2'], bounds='1..3 dependencies of 1..2 symbolic bytes, all layouts', limits=dict(time=3000, max_paths=3000000))),
          dict(name='targets', harness='c15_depfile.cc', units=['depfile_parser'], stubs=False, reach=['accepted'],
               quick=dict(defines=['VERIF_T=1', 'VERIF_D=1', 'VERIF_L=2', 'CONCRETE_DEP'], bounds='1 target of 1..2 symbolic bytes, dependency src/d.h'),
               thorough=dict(defines=['VERIF_T=2', 'VERIF_D=1', 'VERIF_L=2'], bounds='1..2 targets, 1 dependency, 1..2 symbolic bytes each', limits=dict(time=3000, max_paths=3000000))),
          dict(name='reject', harness='c15_depfile.cc', units=['depfile_parser'], stubs=False, defines=['MODE_REJECT'], reach=['no-colon', 'input-with-inputs'],
               quick=dict(defines=['VERIF_T=1', 'VERIF_D=2', 'VERIF_L=1'], bounds='names of 1 symbolic byte'),
               thorough=dict(defines=['VERIF_T=1', 'VERIF_D=2', 'VERIF_L=2'], bounds='names of 1..2 symbolic bytes', limits=dict(time=3000, max_paths=3000000)))])

_PARSE_UNITS = ['manifest_parser', 'parser', 'lexer', 'state', 'graph', 'eval_env', 'util', 'string_piece_util', 'edit_distance', 'dyndep_parser', 'dyndep',
                'version', 'depfile_parser', 'deps_log', 'build_log', 'debug_flags']
def _c13(name, mode, units, qn, tn, reach, mutate=False, hooks=(), extra=None, tlim=None):
    d = [mode] + (['MUTATE'] if mutate else [])
    what = ('every %d-byte mutation at every position of a valid sample' if mutate else 'every byte string of length 0..%d')
    j = dict(name=name, harness='c13_inputs.cc', units=units, defines=d, reach=reach, hooks=list(hooks), budget_overrun_is_violation=True,
             limits=dict(max_steps=400000, max_depth=200),
             quick=dict(defines=['VERIF_N=%d' % qn], bounds=what % qn), thorough=dict(defines=['VERIF_N=%d' % tn], bounds=what % tn, limits=dict(time=3000, max_paths=3000000)))
    if extra: j.update(extra)
    return j
_U = ['util', 'string_piece_util', 'edit_distance']
CHECKS['C13'] = dict(
    title='no file content can crash, corrupt or hang ninja',
    level_text='Bounded symbolic execution of each consumer of file content (manifest, depfile, dyndep, .ninja_log, .ninja_deps, /showIncludes output, MAKEFLAGS, status format, ANSI stripping/eliding) on symbolic bytes: the interpreter checks every load, store, memcpy, free, allocation size, call depth and step count on every path, so an out-of-bounds access, use after free, uncaught C++ exception, abort, unbounded recursion or hang reachable within the bounds is reported with the input that triggers it and replayed natively under ASan/UBSan.',
    level_note='Trusted: IR generation, the interpreter memory model (allocation table with red zones; cross-checked natively per run), z3, libc models. Bounds: fully symbolic strings up to the stated length and all k-byte mutations of one valid sample per format; binary deps log: up to N damaged records whose header and id words range over boundary values. rapidhash is replaced by a constant in these jobs (container semantics do not depend on hash values), so the hash function itself is not exercised on symbolic keys.',
    assumptions=['bounds on symbolic length / mutation width as stated per job', 'hash values do not influence container semantics (rapidhash replaced by a constant for symbolic keys)', 'uninitialised reads are not flagged', 'a step budget of 3M IR instructions per path and call depth 200 stand for "hangs" and "unbounded recursion"'],
    jobs=[_c13('depfile', 'MODE_DEPFILE', ['depfile_parser'], 4, 5, ['accepted', 'rejected'], extra=dict(stubs=False)),
          _c13('depfile_mut', 'MODE_DEPFILE_MUT', ['depfile_parser'], 2, 3, ['accepted'], extra=dict(stubs=False)),
          _c13('clparser', 'MODE_CLPARSER', ['clparser'] + _U, 4, 5, ['no-include']),
          _c13('clparser_mut', 'MODE_CLPARSER', ['clparser'] + _U, 1, 2, ['include'], mutate=True),
          _c13('makeflags', 'MODE_MAKEFLAGS', ['jobserver'] + _U, 4, 6, ['none']),
          _c13('makeflags_mut', 'MODE_MAKEFLAGS', ['jobserver'] + _U, 2, 3, ['jobserver'], mutate=True),
          _c13('ansi_elide', 'MODE_ANSI', ['elide_middle'] + _U, 4, 6, ['stripped', 'kept']),
          _c13('status_format', 'MODE_STATUS', ['status_printer', 'line_printer', 'elide_middle', 'debug_flags'] + _U, 3, 4, ['formatted']),
          _c13('buildlog', 'MODE_BUILDLOG', ['build_log'] + _U, 4, 6, ['no-entry'], hooks=['const_hash']),
          _c13('buildlog_mut', 'MODE_BUILDLOG', ['build_log'] + _U, 2, 3, ['entry'], mutate=True, hooks=['const_hash']),
          _c13('depslog', 'MODE_DEPSLOG', ['deps_log', 'state', 'graph', 'eval_env'] + _U, 1, 2, ['loaded'], hooks=['const_hash'],
               extra=dict(quick=dict(defines=['VERIF_N=1'], bounds='valid header and two valid records followed by 1 damaged record: kind x size in {0,1,4,5,6,8,12,16,20,2^19,2^19+1,2^31-1} x id/mtime words in {0,1,2,3,-1,-2,INT_MAX,INT_MIN,1000} x path bytes in {NUL,c,/,0xff,0xfd,0xfe} x last byte missing'),
                          thorough=dict(defines=['VERIF_N=2'], bounds='same, 2 damaged records', limits=dict(time=3000, max_paths=3000000)))),
          _c13('dyndep', 'MODE_DYNDEP', _PARSE_UNITS, 3, 4, ['rejected'], hooks=['const_hash']),
          _c13('dyndep_mut', 'MODE_DYNDEP', _PARSE_UNITS, 1, 2, ['accepted', 'rejected'], mutate=True, hooks=['const_hash']),
          dict(name='dyndep_struct', harness='c13_inputs.cc', units=_PARSE_UNITS + ['disk_interface'], defines=['MODE_DYNDEP', 'STRUCT'], hooks=['const_hash'], budget_overrun_is_violation=True,
               limits=dict(max_steps=400000, max_depth=200), reach=['accepted', 'rejected'], bounds='0..2 dyndep statements assembled from menus: output / implicit output / implicit input in {out, out2 (bound), in, src (sources), dd, other (statement without binding), nosuch}, restat flag; parsed and loaded by the real DyndepLoader'),
          _c13('manifest', 'MODE_MANIFEST', _PARSE_UNITS, 3, 4, ['accepted', 'rejected'], hooks=['const_hash']),
          _c13('manifest_mut', 'MODE_MANIFEST', _PARSE_UNITS, 1, 2, ['accepted', 'rejected'], mutate=True, hooks=['const_hash']),
          dict(name='manifest_self_include', harness='c13_inputs.cc', units=_PARSE_UNITS, defines=['MODE_MANIFEST', 'SELF_INCLUDE'], hooks=['const_hash'], budget_overrun_is_violation=True,
               limits=dict(max_steps=6000000, max_depth=1500), validate=False, reach=['rejected'], bounds='a manifest that includes / subninjas itself')])

_C09_UNITS = ['deps_log', 'state', 'graph', 'eval_env', 'debug_flags', 'disk_interface'] + _U
CHECKS['C09'] = dict(
    title='the deps log survives torn writes, restarts, damage and compaction',
    level_text='Bounded symbolic execution of the real DepsLog writer, loader, recovery truncation and recompaction on an in-memory file system: a first session writes records, the file is torn at a symbolic offset (every byte) or damaged by symbolic bytes after a symbolic record boundary, a second session loads, appends and optionally recompacts, a third reloads (and optionally recompacts and reloads). On every path the solver is asked for an offset / tail / continuation for which the loaded dependencies differ from the model "last complete record per output wins", the file is not cut at the last good record, or a later session loses what an earlier one recorded.',
    level_note='Trusted: IR generation, interpreter and VFS model (cross-checked natively on the real file system per run), z3, the 15-line expectation model. Bounds: first session = 1..4 records of three representative sequences covering every padding case, overwrites, empty lists and a dead output (plus a job with 1..2 fully menu-symbolic records); tear at every offset; tails of 1..8 arbitrary bytes at every record boundary; one appended record; recompaction in session 2 or 3. Longer histories and records near the size limit are outside the claim.',
    assumptions=['one ninja process writes the log at a time', 'bounds as stated per job', 'a write torn at any byte is modelled as the file truncated at that byte (records are appended and flushed one at a time)'],
    jobs=[dict(name='tear', harness='c09_depslog.cc', units=_C09_UNITS, defines=['DAMAGE_TEAR', 'CONCRETE_SEQ'], reach=['tear-none', 'tear-some', 'recompact-2', 'recompact-3', 'done'],
               quick=dict(defines=['VERIF_SEQS=2', 'VERIF_MAXREC=3'], bounds='2 sequences x 1..3 records, torn at every byte offset 0..size, 4 choices of appended record, recompaction never / in session 2 / in session 3'),
               thorough=dict(defines=['VERIF_SEQS=3', 'VERIF_MAXREC=4'], bounds='3 sequences x 1..4 records, torn at every byte offset, 4 choices of appended record, recompaction never / in session 2 / in session 3', limits=dict(time=3000, max_paths=3000000))),
          dict(name='tail', harness='c09_depslog.cc', units=_C09_UNITS, defines=['DAMAGE_TAIL', 'CONCRETE_SEQ'], reach=['tail', 'done'],
               quick=dict(defines=['VERIF_TAIL=4', 'VERIF_SEQS=2', 'VERIF_MAXREC=3'], bounds='2 sequences x 1..3 records, cut at every record boundary then 1..4 fully symbolic bytes'),
               thorough=dict(defines=['VERIF_TAIL=8'], bounds='cut at every record boundary then 1..8 fully symbolic bytes', limits=dict(time=3000, max_paths=3000000))),
          dict(name='badrec', harness='c09_depslog.cc', units=_C09_UNITS, defines=['DAMAGE_BADREC', 'CONCRETE_SEQ'], reach=['badrec', 'done'],
               quick=dict(defines=['VERIF_SEQS=1', 'VERIF_MAXREC=2'], bounds='1 sequence x 1..2 records, cut at every record boundary, then one well-framed record: kind x size in {4..20} x words in {0,1,2,5,9,-1,-2,INT_MAX,"a"}; later sessions must load cleanly and keep what they record'),
               thorough=dict(defines=['VERIF_SEQS=3', 'VERIF_MAXREC=4'], bounds='3 sequences x 1..4 records, same damage', limits=dict(time=3000, max_paths=3000000))),
          dict(name='recompact_crash', harness='c09_depslog.cc', units=_C09_UNITS, defines=['DAMAGE_RECOMPACT_CRASH', 'CONCRETE_SEQ', 'VERIF_MAX_EVENTS=14'], reach=['recompaction-killed', 'recompaction-completed', 'recompact-2', 'recompact-3', 'done'],
               quick=dict(defines=['VERIF_SEQS=2', 'VERIF_MAXREC=3'], bounds='2 sequences x 1..3 records; a session that recompacts and is killed after persistence event 0..14 of the recompaction; then load, append (4 choices), recompaction never / in session 2 / in session 3, reload'),
               thorough=dict(defines=['VERIF_SEQS=3', 'VERIF_MAXREC=4'], bounds='3 sequences x 1..4 records, same', limits=dict(time=3000, max_paths=3000000))),
          dict(name='tear_sym', harness='c09_depslog.cc', units=_C09_UNITS, defines=['DAMAGE_TEAR', 'SMALL_MENU'], reach=['tear-some', 'done'], thorough_only=True,
               quick=dict(defines=['VERIF_RECORDS=1'], bounds='1 record with symbolic output (4), mtime (3), dependency list (4 menus); torn at every byte', limits=dict(time=1500)),
               thorough=dict(defines=['VERIF_RECORDS=2'], bounds='1..2 such records', limits=dict(time=3000, max_paths=3000000)))])

SCENARIOS = ['chain', 'restat_then_deps', 'diamond_order_only', 'depfile_plain', 'deps_msvc', 'multi_out_phony', 'generator_validation', 'dyndep', 'generated_header_deps', 'pools', 'dyndep_static_consumer', 'dyndep_static_consumer_oo', 'restat_phony', 'wide3']
_PIPE_ASSUME = ['commands are deterministic functions of the files they read at start (content ids), write only their declared outputs/depfile, and report every extra file they read through the depfile/deps/dyndep mechanism',
                'modification times never go backwards: every write and every user edit gets a strictly later tick than anything before it',
                'graph shapes: the scenario catalogue in harness/scenarios.h (shape is concrete manifest text parsed by the real ManifestParser); histories, schedules, options and faults are symbolic within the stated bounds',
                'SubprocessSet, real signals, /bin/sh and the terminal are outside the encoding (CommandRunner, DiskInterface and Status are the cut points)']
def _hist_jobs(check, quick_h, thorough_h, scenarios, extra_defs=(), fail=False, reach=('built', 'incremental-build')):
    reach = [x for x in reach]
    jobs = []
    for i in scenarios:
        jobs.append(dict(name='%s%s' % (SCENARIOS[i], '_fail' if fail else ''), harness='pipeline.cc', units=PIPELINE, defines=['SCENARIO=%d' % i, check] + list(extra_defs) + (['HISTORY_FAIL'] if fail else []),
                         reach=list(reach), limits=dict(max_steps=30000000, time=1500),
                         quick=dict(defines=['HISTORY=%d' % quick_h], bounds='scenario %s: %d invocations from the initial tree; before each later one any subset of sources edited, at most one output/depfile deleted, manifest variant switched; symbolic target subset, -j in {1,2}, every completion order%s' % (SCENARIOS[i], quick_h, '; in all but the last invocation any subset of commands fails (with or without touching outputs), -k in {1,2}' if fail else '')),
                         thorough=dict(defines=['HISTORY=%d' % thorough_h], bounds='same with %d invocations' % thorough_h, limits=dict(time=3400, max_paths=3000000))))
    return jobs
CHECKS['C01'] = dict(
    title='a successful incremental build equals a clean build',
    level_text='Bounded symbolic execution of the whole real pipeline (manifest parser, dependency scan, plan, builder, build log and deps log on an in-memory file system) over histories of invocations: before each invocation the solver-chosen user operations edit sources or discovered headers, delete an output or switch the manifest variant; target subset, -j and the completion order of running commands are symbolic. After every invocation that returns success the harness asserts that every requested target and everything it transitively depends on has the content a from-scratch evaluation of the current sources produces.',
    level_note='Trusted: IR generation, interpreter and VFS (cross-checked natively per run), z3, the harness kit (SymDisk, SymRunner, content model: 150 lines) and the 20-line from-scratch reference. Bounds: the 10 shapes of harness/scenarios.h, history length 2 (quick) / 3 (thorough), -j <= 2. Manifest regeneration through NinjaMain::RebuildManifest and histories containing interrupted builds are covered by C07, not here.',
    assumptions=_PIPE_ASSUME,
    jobs=_hist_jobs('CHECK_C01', 2, 3, list(range(13))) + _hist_jobs('CHECK_C01', 2, 3, [1, 3], fail=True, reach=('built',)) + [dict(j, thorough_only=True) for j in _hist_jobs('CHECK_C01', 2, 2, [0, 5], fail=True, reach=('built',))])
CHECKS['C02'] = dict(
    title='a build that succeeded leaves nothing to do',
    level_text='Same symbolic histories as C01; after every invocation that returns success the identical request is issued twice more with nothing changed in between, and the harness asserts that neither starts a command and both report an up-to-date plan.',
    level_note='Trusted base and bounds as C01. Commands rewrite all their outputs except restat-style commands, which leave identical outputs untouched (the property\'s assumption). No scenario contains an input-less phony statement without a file (the documented always-dirty case).',
    assumptions=_PIPE_ASSUME + ['every non-restat command rewrites all of its declared outputs'],
    jobs=_hist_jobs('CHECK_C02', 2, 3, list(range(10)) + [12], reach=('built', 'converged-checked')))

def _mode_jobs(mode, scenarios, extra=(), suffix='', reach=(), quick_defs=(), thorough_defs=(), bounds='', limits=None, thorough_only=False):
    jobs = []
    for i in scenarios:
        j = dict(name=SCENARIOS[i] + suffix, harness='pipeline.cc', units=PIPELINE, defines=['SCENARIO=%d' % i, mode] + list(extra), reach=list(reach),
                 limits=limits or dict(max_steps=30000000, time=1500), quick=dict(defines=list(quick_defs), bounds='scenario %s: %s' % (SCENARIOS[i], bounds)),
                 thorough=dict(defines=list(thorough_defs) or list(quick_defs), bounds='scenario %s: %s' % (SCENARIOS[i], bounds), limits=dict(time=3400, max_paths=3000000)))
        if thorough_only: j['thorough_only'] = True
        jobs.append(j)
    return jobs
CHECKS['C03'] = dict(
    title='only commands affected by a change are re-run',
    level_text='Same symbolic histories as C01; before every invocation the harness computes, from the contents each command saw when it last succeeded, the set of commands a make-semantics reference must run (missing output, changed command line except for generator rules, missing plain depfile, a read file that differs from what was last seen, or an input actually rewritten in this run; restat-style commands that reproduce their output rewrite nothing; order-only inputs never count), and asserts that the set handed to CommandRunner::StartCommand is exactly that set.',
    level_note='Trusted base as C01 plus the 45-line minimality reference (MinRef in harness/kit.h). Bounds as C01 (history length 2 quick / 3 thorough). Histories with failing commands are excluded from this check.',
    assumptions=_PIPE_ASSUME + ['every user edit changes the content of the edited file (a pure touch is not modelled)'],
    jobs=_hist_jobs('CHECK_C03', 2, 3, [0, 2, 3, 5, 6, 8, 9, 12], reach=('built', 'minimality-checked')) + [dict(j, thorough_only=True) for j in _hist_jobs('CHECK_C03', 2, 3, [1, 4, 7], reach=('built', 'minimality-checked'))])
CHECKS['C04'] = dict(
    title='a command starts only after everything it needs is up to date and in place',
    level_text='Symbolic histories and single invocations with symbolic -j (1..3), pool depths and completion order over the whole real pipeline; a monitor inside CommandRunner::StartCommand asserts for every file the command reads (declared, discovered through depfile/deps log, or dyndep) that has a producer: it exists and already has the content a from-scratch build gives it; the directories of outputs and depfile exist; the response file holds the evaluated rspfile_content. A validation target is reached both before and after its requester (witness).',
    level_note='Trusted base as C01. Because the engine follows every feasible completion order, the schedules of each explored shape are covered exhaustively. Bounds: catalogue shapes, -j <= 3, history length 2.',
    assumptions=_PIPE_ASSUME,
    jobs=_hist_jobs('CHECK_C04', 2, 2, [0, 2, 5, 6, 7, 8], reach=('built', 'incremental-build')) + _mode_jobs('MODE_SCHED', [2, 9, 7], suffix='_sched', reach=('built', 'parallel'), bounds='one invocation from the empty tree, -j in {1,2,3}, every completion order'))
CHECKS['C05'] = dict(
    title='failures are contained, reported, and never recorded as success',
    level_text='One symbolic invocation over the whole real pipeline in which any subset of commands fails with a symbolic exit code (1..3), with or without having touched its outputs, under -k in {1,2,0} and -j in {1..3} and every completion order; a declared source may be missing. The harness asserts containment (no dependent of a failed command starts), the exit status and stop message, that successful commands are recorded in .ninja_log (re-read from the in-memory file system by the real loader) and failed ones are not, that the failure budget is honoured in both directions, and that the next build retries every failed command.',
    level_note='Trusted base as C01. ParseExitStatus in subprocess-posix.cc is outside the encoding (SubprocessSet is a cut point); exit code 130 is covered by C07. Bounds: catalogue shapes, one invocation from the empty tree (plus built-then-perturbed states in the thorough tier).',
    assumptions=_PIPE_ASSUME,
    jobs=_mode_jobs('MODE_FAIL', [0, 2, 5, 13], reach=('failed', 'retried', 'all-succeeded', 'missing-source'), bounds='one invocation from the empty tree; any subset of commands fails with exit code 1..3, touched or not; -k in {1,2,0}; -j in {1,2,3}; any one source missing') +
         _mode_jobs('MODE_FAIL', [13, 0], extra=['WITH_JOBSERVER'], suffix='_tokens', reach=('failed', 'retried'), bounds='the same as a jobserver client with the implicit slot plus 0..1 explicit tokens') +
         _mode_jobs('MODE_FAIL', [9], reach=('failed', 'retried'), bounds='one invocation from the empty tree with pools; faults as above', thorough_only=True) +
         _mode_jobs('MODE_FAIL', [0, 1, 3], extra=['FROM_BUILT'], suffix='_built', reach=('failed', 'retried'), bounds='the same from a fully built tree after symbolic edits/deletions', thorough_only=True))
CHECKS['C06'] = dict(
    title='concurrency limits hold, no slot idles, and the build always finishes',
    level_text='One symbolic invocation over the whole real pipeline with symbolic -j, pool assignment per the scenario (depth-1 pool, console pool), an optional jobserver token pool of symbolic size with spawn failures, failing commands and every completion order. Monitors in the command runner assert: running <= -j (or <= tokens held), per-pool running <= depth, each command at most once, no wait while Plan::ready_ is non-empty and a slot is free and the failure budget lasts, tokens acquired == tokens released after ~Builder on every return path, never "stuck"; the per-path step budget bounds termination.',
    level_note='Trusted base as C01 plus the 15-line token pool stub (the POSIX FIFO, ppoll and getloadavg are outside the encoding). RealCommandRunner::CanRunMore is mirrored by the harness runner (with a jobserver the capacity is unlimited and Plan::FindWork token acquisition limits the jobs).',
    assumptions=_PIPE_ASSUME + ['load-average limiting (-l) is not modelled'],
    jobs=_mode_jobs('MODE_SCHED', [9, 2, 5], reach=('built',), bounds='one invocation from the empty tree, -j in {1,2,3}, every completion order') +
         _mode_jobs('MODE_SCHED', [9, 0], extra=['WITH_FAILURES'], suffix='_fail', reach=('built',), bounds='the same with any subset of commands failing, -k in {1,2}') +
         _mode_jobs('MODE_SCHED', [9, 2], extra=['WITH_JOBSERVER'], suffix='_tokens', reach=('tokens-success', 'tokens-failure'), bounds='jobserver pool of 0..2 explicit tokens plus the implicit one, any command start may fail') +
         _mode_jobs('MODE_SCHED', [9, 0], extra=['WITH_JOBSERVER', 'WITH_FAILURES'], suffix='_tokens_fail', reach=('tokens-success', 'tokens-failure'), bounds='jobserver pool of 0..2 explicit tokens, any command may fail or fail to start, -k in {1,2}') +
         _mode_jobs('MODE_SCHED', [12], extra=['FROM_BUILT'], suffix='_built', reach=('built',), bounds='from a fully built tree after symbolic edits/deletions') +
         _mode_jobs('MODE_SCHED', [9, 7], extra=['FROM_BUILT'], suffix='_built', reach=('built',), bounds='from a fully built tree after symbolic edits/deletions', thorough_only=True))
CHECKS['C07'] = dict(
    title='interrupting or killing ninja never poisons the next build',
    level_text='A build over the whole real pipeline is cut off right after a symbolic persistence event (every DiskInterface mutation and every stdio/unistd mutation of .ninja_log/.ninja_deps on the in-memory file system, i.e. every point between two durable effects), commands running at that instant either complete atomically or die with ninja; or it is interrupted at a symbolic wait with running commands having touched their outputs or not. The recovery invocation must load both logs, succeed, leave the tree equal to a from-scratch build and be followed by a no-op build; an interrupt must exit 130, remove touched outputs and the lock file.',
    level_note='Trusted base as C01. Completeness argument: only persistent effects survive a process death, so dying anywhere between two persistence events is indistinguishable from dying right after the first. Real signals, SubprocessSet::Clear and children surviving SIGKILL are operating-system behaviour outside the encoding.',
    assumptions=_PIPE_ASSUME + ['commands replace their outputs atomically when ninja is killed'],
    jobs=_mode_jobs('MODE_CRASH', [1, 3, 5], reach=('died', 'survived', 'recovered'), quick_defs=['VERIF_MAX_EVENTS=40'], bounds='build from the empty tree killed after persistence event 0..40, -j in {1,2}, every completion order; recovery build; no-op build') +
         _mode_jobs('MODE_CRASH', [1, 3], extra=['FROM_BUILT'], suffix='_built', reach=('died', 'recovered'), quick_defs=['VERIF_MAX_EVENTS=30'], bounds='the same from a fully built tree after symbolic edits/deletions', thorough_only=True) +
         _mode_jobs('MODE_CRASH', [0, 3, 5], extra=['INTERRUPT'], suffix='_interrupt', reach=('interrupted', 'recovered'), bounds='interrupt at any wait, running commands touched their outputs or not; recovery build'))

_C08_UNITS = ['build_log', 'state', 'graph', 'eval_env', 'debug_flags', 'disk_interface'] + _U
CHECKS['C08'] = dict(
    title='the build log survives torn writes, restarts, compaction and restat',
    level_text='Bounded symbolic execution of the real BuildLog writer, loader, recompaction and restat on an in-memory file system: a session records commands (single-output, multi-output and space-containing names), the file is torn at a symbolic byte offset, and a symbolic continuation follows (reload; append a record behind the tear and reload; recompact with a symbolic dead output; restat all or one output). On every path the solver is asked for an offset/continuation for which loading fails, the loaded entries differ from the model "last completely written line per output", an entry carrying the true command hash is not a completely written record (a merged line must never make an output look up to date), or recompaction/restat change more than they should.',
    level_note='Trusted: IR generation, interpreter and VFS (cross-checked natively on the real file system per run), z3, the 20-line expectation model. Bounds: two representative sequences of 1..3 recorded commands (4 in the thorough tier), tear at every byte, four continuations; a separate job loads a >256 KiB log whose lines straddle the reader buffer, and one checks the version header handling.',
    assumptions=['one ninja process writes the log at a time', 'a write torn at any byte is modelled as the file truncated at that byte', 'bounds as stated per job'],
    jobs=[dict(name='tear', harness='c08_buildlog.cc', units=_C08_UNITS, reach=['tear-none', 'tear-some', 'reloaded', 'appended', 'recompacted', 'restatted'], limits=dict(time=1500),
               quick=dict(defines=['VERIF_SEQS=2', 'VERIF_MAXREC=2'], bounds='2 sequences x 1..2 recorded commands, torn at every byte offset, continuation in {reload, append one of 3 statements, recompact with none/one dead output, restat all/one output}'),
               thorough=dict(defines=['VERIF_SEQS=2', 'VERIF_MAXREC=4'], bounds='2 sequences x 1..4 recorded commands, same tears and continuations', limits=dict(time=3000, max_paths=3000000))),
          dict(name='recompact_crash', harness='c08_buildlog.cc', units=_C08_UNITS, defines=['MODE_RECOMPACT_CRASH', 'VERIF_MAX_EVENTS=12'], reach=['killed', 'completed', 'done'],
               bounds='1..5 recorded commands (two outputs recorded twice); a session that recompacts or restats the log and is killed after persistence event 0..12; reload, append, reload'),
          dict(name='version', harness='c08_buildlog.cc', units=_C08_UNITS, defines=['MODE_VERSION'], reach=['discarded', 'read'], bounds='log header version 1..12'),
          dict(name='long', harness='c08_buildlog.cc', units=_C08_UNITS, defines=['MODE_LONG'], reach=['long-loaded'], limits=dict(max_steps=200000000, time=1500),
               quick=dict(defines=['VERIF_ALIGNMENTS=13'], bounds='a 256 KiB + log: one record with a ~262000-byte output name, then three short records (one output recorded twice) that cross the 256 KiB reader refill boundary at 13 alignments, the file ending right after them'),
               thorough=dict(defines=['VERIF_ALIGNMENTS=65'], bounds='the same at 65 alignments', limits=dict(time=3000)))])

CHECKS['C18'] = dict(
    title='cleaning removes only what ninja built, and all of it',
    level_text='Bounded symbolic execution of the real Cleaner (CleanAll with/without -g, CleanTargets, CleanRules incl. the built-in phony rule, CleanDead, dyndep pre-loading) on a graph with depfile, rspfile, multi/implicit outputs, a generator statement, phony aliases, a source declared as a phony output and a dyndep-discovered output; which one of the built files is missing, the mode, its argument, -g and -n are symbolic. Every DiskInterface::RemoveFile call is checked against the scope computed by the harness; sources and phony names must survive; every existing in-scope file must be removed (dry run: counted, not removed).',
    level_note='Trusted: IR generation, interpreter (cross-checked natively per run), z3, the scope tables of the harness (written from the manual). Bound: one graph shape (harness/c18_clean.cc), at most one built file missing, one target or rule per call. The generator exemption is asserted for plain clean only: CleanTest.CleanRuleGenerator pins that cleaning by rule removes generator outputs.',
    assumptions=['one graph shape; at most one built file missing; one target or rule argument', 'generator outputs are exempt only from a plain clean without -g (rule/target cleaning is explicit)'],
    jobs=[dict(name='clean', harness='c18_clean.cc', units=PIPELINE, reach=['clean-all', 'clean-target', 'clean-rule', 'clean-dead', 'dry-run'],
               bounds='mode in {all, target, rule, cleandead} x argument menus x -g x -n x which built file is missing (14)')])

SCENARIOS.append('discovered_generated_no_path'); SCENARIOS.append('dyndep_two_files')
CHECKS['C10'] = dict(
    title='discovered dependencies count exactly like declared implicit inputs',
    level_text='Symbolic histories over the whole real pipeline on shapes whose commands report extra dependencies through a plain depfile, deps=gcc or deps=msvc, pointing at sources or at generated files (with and without a manifest path to the generator). The reference gives discovered dependencies the semantics of declared implicit inputs: a monitor at CommandRunner::StartCommand asserts every generated file the command reads is already up to date, after a successful build the consumer must equal the from-scratch content, and a vanished discovered header must lead to a rebuild, never to the missing-source error.',
    level_note='Trusted base as C01. The comparison is against the declared-implicit-input semantics computed by the harness reference, not against a second run of a rewritten manifest. Bounds: catalogue shapes, history length 2.',
    assumptions=_PIPE_ASSUME,
    jobs=_hist_jobs('CHECK_C10', 2, 3, [1, 3, 4], reach=('built', 'incremental-build', 'header-vanished')) + _hist_jobs('CHECK_C10', 2, 3, [8]) +
         _hist_jobs('CHECK_C10', 1, 2, [14], extra_defs=['PREBUILD_SEQ'], reach=('built',)))
CHECKS['C11'] = dict(
    title='dyndep information behaves as if it had been written in the manifest',
    level_text='Symbolic histories over the whole real pipeline on graphs whose dyndep file (produced during the build or already present, by a clean or dirty statement) adds an implicit output and an implicit input that is itself generated: the reference is the manifest with that information inlined, so started inputs must be up to date at command start and the final state must equal the from-scratch build. A second job feeds ill-formed dyndep files (truncated at every byte, missing or duplicated statement, output claimed by another statement, cycle-closing input, statement without binding, unknown output, missing version) and asserts the build fails with a non-empty error instead of silently dropping information.',
    level_note='Trusted base as C01; the list of complete prefixes of the truncated file is computed by hand in the harness. Bounds: the dyndep shapes of the catalogue, history length 2, one dyndep file.',
    assumptions=_PIPE_ASSUME,
    jobs=_hist_jobs('CHECK_C11', 2, 3, [7], reach=('built', 'incremental-build')) +
         _mode_jobs('MODE_DYNDEP_BAD', [7, 15], suffix='_bad', reach=('truncated', 'rejected', 'accepted'), bounds='dyndep text truncated at every byte or one of 7 (8 with two dyndep files) ill-formed variants; dyndep file produced during the build or already present; -j in {1,2}') +
         _hist_jobs('CHECK_C11', 2, 2, [15]))

SCENARIOS += ['cycle_explicit', 'cycle_order_only_implicit', 'cycle_multi_output', 'validation_on_requester', 'cycle_by_depfile', 'cycle_by_deps_log', 'self_cycle', 'cycle_by_dyndep_running', 'independent_depfile_edges', 'restat_with_deps', 'restat_order_only_newer', 'rspfile_empty_content', 'depfile_noncanonical_path']
CHECKS['C17'] = dict(
    title='dependency cycles are always diagnosed, and only real ones',
    level_text='Symbolic invocations over the whole real pipeline on graphs with cycles of length 1-3 through explicit, implicit and order-only inputs and through multi-output statements, inside and outside the requested closure, closed by the manifest, by a depfile, by the deps log or (C11 job dyndep_bad) by a dyndep file mid-build, plus acyclic graphs in which validations depend on their requester or on each other. A depth-first search over the harness reference graph decides whether the needed part is cyclic; the solver is asked for a target subset / -j / schedule for which ninja does not fail with a "dependency cycle" error spelling out a closed chain of real input relations, runs a command of the cycle, rejects an acyclic graph, or ends with "stuck". Unbounded recursion and hangs are caught by the engine call-depth and step budgets.',
    level_note='Trusted base as C01 plus the 25-line cycle search and the message checker. Bounds: the seven cycle shapes of harness/scenarios.h, two invocations (the second after an edit, so that recorded depfile/deps-log information is in effect).',
    assumptions=_PIPE_ASSUME,
    jobs=_mode_jobs('MODE_CYCLE', [16, 17, 18, 22], reach=('cycle-diagnosed', 'acyclic-built'), bounds='symbolic target subset, -j in {1,2}, two invocations') +
         _mode_jobs('MODE_CYCLE', [23], reach=('dyndep-cycle',), bounds='a dyndep file built during the build closes a cycle through a statement that may be running or finished when it is loaded; -j in {1,2}, every completion order') +
         _mode_jobs('MODE_CYCLE', [19], reach=('acyclic-built',), bounds='validations depending on their requester / on each other must not be reported as cycles') +
         _mode_jobs('MODE_CYCLE', [20, 21], reach=('acyclic-built', 'discovered-cycle-diagnosed'), bounds='a cycle closed by a depfile / by the deps log after the first build; the source edited or not in between'))

CHECKS['C12'] = dict(
    title='manifest text means what the manual says',
    level_text='Bounded symbolic execution of the real Lexer, ManifestParser, State and variable evaluation on manifests assembled from symbolic choices: which scopes bind a variable (file, build block, included / subninja file, late redefinition, a file-level variable named like a rule variable), where it is used (file-level value, build-level value, rule command, description), LF or CRLF line ends, $-continuations inside values and path lists, mixed input kinds, multiple/implicit outputs, pools, escapes, paths needing canonicalisation, the six legacy self-referencing phony forms, and a catalogue of 16 constraint violations with their valid neighbours. The evaluated command, description, inputs by kind, outputs, validations, pool and defaults are compared with a reference evaluator written from the manual; ill-formed manifests must be rejected with a build.ninja:<line> diagnostic.',
    level_note='Trusted: IR generation, interpreter (cross-checked natively per run), z3, the 30-line reference evaluator. Where the manual does not fix the moment a file-level variable is read by a rule variable, the reference follows ninja (the value at the end of the scope). Bound: the three template families of harness/c12_manifest.cc.',
    assumptions=['the three template families of harness/c12_manifest.cc', 'a file-level variable referenced from a rule variable is read with its final value in that scope (the manual is silent on the moment)'],
    jobs=[dict(name='scoping', harness='c12_manifest.cc', units=_PARSE_UNITS, defines=['MODE_SCOPING'], reach=['single-file', 'include', 'subninja', 'crlf', 'continuation'], bounds='2^8 binding-placement choices x {none, include, subninja} x {LF, CRLF} x continuation'),
          dict(name='siblings', harness='c12_manifest.cc', units=_PARSE_UNITS, defines=['MODE_SIBLINGS'], reach=['siblings', 'rejected'], bounds='two child files read one after the other, each by include or subninja; rule cc declared at the top and/or in the first child; 2^6 combinations'),
          dict(name='kinds', harness='c12_manifest.cc', units=_PARSE_UNITS, defines=['MODE_KINDS'], reach=['kinds'], bounds='6 self-referencing phony forms x {LF, CRLF}, one statement mixing every input/output kind'),
          dict(name='reject', harness='c12_manifest.cc', units=_PARSE_UNITS, defines=['MODE_REJECT'], reach=['rejected', 'accepted'], bounds='16 ill-formed and 6 well-formed manifests x {LF, CRLF}')])

CHECKS['C19'] = dict(
    title='dry runs observe without disturbing, and tell the truth',
    level_text='From a fully built tree perturbed by symbolic edits/deletions (and optionally files left over by earlier failed builds) the whole real pipeline is run with BuildConfig::dry_run (the real DryRunCommandRunner, logs loaded but not opened for writing as in NinjaMain): the harness asserts that no command reaches the runner and that the snapshot of every file (existence, mtime, content) and the size of both logs is unchanged; then the real build is run from the same state and the set of commands it starts must be a subset of (without restat rules: equal to) the commands the dry run announced. A second job executes EncodeJSONString on every byte string up to the bound and asserts RFC 8259 validity and round trip.',
    level_note='Trusted base as C01. The read-only tools of ninja.cc (-t commands, inputs, query, targets, rules, graph, compdb, deps, missingdeps) are not driven: only their JSON string encoder and the dry-run path are encoded; directory creation by MakeDirs under -n is not part of the snapshot (the property lists sources, outputs, depfiles and logs).',
    assumptions=_PIPE_ASSUME + ['the -t tools themselves are outside the encoding; only EncodeJSONString is'],
    jobs=_mode_jobs('MODE_DRYRUN', [0, 2, 5], reach=('compared', 'nothing-to-do'), bounds='fully built tree + symbolic edits/deletions, symbolic target subset, -j in {1,2}; dry run then real run') +
         _mode_jobs('MODE_DRYRUN', [2, 1, 24], extra=['LEFTOVERS'], suffix='_leftovers', reach=('compared', 'dry-run-aborted'), bounds='the same with a stale depfile / kept response file possibly present and directory creation possibly failing') +
         [dict(name='json', harness='c19_json.cc', units=['json'], stubs=False, reach=['escaped', 'verbatim'],
               quick=dict(defines=['VERIF_N=3'], bounds='every NUL-free byte string of length 0..3'), thorough=dict(defines=['VERIF_N=5'], bounds='every NUL-free byte string of length 0..5', limits=dict(time=3000, max_paths=3000000)))])

_STATUS_UNITS = PIPELINE
CHECKS['C20'] = dict(
    title='progress and command output are reported once, whole and consistent',
    level_text='One symbolic invocation over the whole real pipeline with the real StatusPrinter and LinePrinter (non-terminal output, default status format) writing to a captured stdout; which commands print output is symbolic, as are -j, failures, -k and every completion order, on shapes with a depth-1 pool and the console pool, restat pruning and dyndep additions. The harness parses the captured bytes and asserts: each command\'s output block appears exactly once, contiguously, directly after that command\'s status line (after FAILED: [code=..] outputs and the command line for failures); finished <= total on every status line, started == finished at the end and finished == total after success; while a console-pool command runs nothing is written, and everything held back appears afterwards.',
    level_note='Trusted base as C01 plus the 40-line transcript checker. The subprocess pipes (Subprocess::OnPipeReady), the smart-terminal path (ioctl, cursor control) and custom status formats are outside this check (format handling on arbitrary strings is covered by C13/status_format).',
    assumptions=_PIPE_ASSUME + ['stdout is not a terminal (LinePrinter dumb mode); default status format'],
    jobs=_mode_jobs('MODE_STATUS', [9, 5], reach=('success', 'output-shown'), bounds='one invocation from the empty tree, -j in {1,2,3}, each command prints or not, every completion order') +
         _mode_jobs('MODE_STATUS', [9, 13], extra=['WITH_FAILURES'], suffix='_fail', reach=('failure',), bounds='the same with any subset of commands failing, -k in {1,2}') +
         _mode_jobs('MODE_STATUS', [12, 1], extra=['FROM_BUILT'], suffix='_built', reach=('success',), bounds='from a fully built tree after symbolic edits/deletions (restat pruning)') +
         _mode_jobs('MODE_STATUS', [7], extra=['FROM_BUILT', 'NO_PRINTS'], suffix='_built_counters', reach=('success',), bounds='from a fully built tree after symbolic edits/deletions (dyndep additions), silent commands: counters only') +
         _mode_jobs('MODE_STATUS', [7], extra=['FROM_BUILT'], suffix='_built', reach=('success',), bounds='from a fully built tree after symbolic edits/deletions (dyndep additions)', thorough_only=True))

# ---- later scenarios joined to the history checks
CHECKS['C01']['jobs'] += _hist_jobs('CHECK_C01', 2, 3, [25, 26])
CHECKS['C02']['jobs'] += _hist_jobs('CHECK_C02', 2, 3, [25], reach=('built', 'converged-checked'))
CHECKS['C03']['jobs'] += _hist_jobs('CHECK_C03', 2, 3, [25, 26], reach=('built', 'minimality-checked'))
CHECKS['C10']['jobs'] += _hist_jobs('CHECK_C10', 2, 3, [25], reach=('built', 'incremental-build', 'header-vanished')) + _hist_jobs('CHECK_C10', 2, 3, [28])
CHECKS['C04']['jobs'] += _mode_jobs('MODE_SCHED', [2, 13], extra=['WITH_FAILURES'], suffix='_sched_fail', reach=('built',), bounds='one invocation from the empty tree with failing commands, -k in {1,2}, -j in {1,2,3}')
CHECKS['C16']['jobs'] += _mode_jobs('MODE_SCHED', [27, 2], suffix='_rspfile', reach=('built',), bounds='response file content checked at command start (empty and non-empty rspfile_content), -j in {1,2,3}')
CHECKS['C16']['level_text'] += ' Two pipeline jobs assert at CommandRunner::StartCommand that the response file exists and holds exactly the evaluated rspfile_content (also when that is empty).'

CHECKS['C14']['jobs'].append(dict(name='deep', harness='c14_deep.cc', units=['util'] + ['string_piece_util', 'edit_distance'], stubs=False, reach=['deep', 'shallow'], limits=dict(max_steps=50000000, time=1200),
    quick=dict(defines=['VERIF_DEPTHS=8'], bounds='("d/" x M) for M in {0,1,127,128,254,255,256,257}, relative or absolute, followed by 1..3 components from {.., ., f, empty}'),
    thorough=dict(defines=['VERIF_DEPTHS=11'], bounds='the same with M up to 513', limits=dict(time=3000))))
CHECKS['C14']['level_note'] += ' A second job covers paths of up to 513 components (concrete structure chosen from menus) against the same reference.'

# ---- the same harnesses entered through ninja.cc's real_main (flag parsing, NinjaMain, RebuildManifest loop, RunBuild, real StatusPrinter)
SCENARIOS.append('regen_manifest')     # 29
SCENARIOS.append('dead_outputs'); SCENARIOS.append('tools_mix'); SCENARIOS.append('generator_runs_restat'); SCENARIOS.append('dyndep_after_order_only'); SCENARIOS.append('console_first'); SCENARIOS.append('restat_consumer'); SCENARIOS.append('include_switch'); SCENARIOS.append('dyndep_checked_in'); SCENARIOS.append('dyndep_rule_level_restat'); SCENARIOS.append('stale_depfile_no_cycle'); SCENARIOS.append('phony_in_console_pool')    # 30 .. 40
def _via_main(jobs, thorough_only=False):
    out = []
    for j in jobs:
        q = dict(j); q['name'] = j['name'] + '_main'; q['defines'] = list(j['defines']) + ['VIA_MAIN']; q['iquote'] = True; q['support'] = ['getopt_model.c']
        q['quick'] = dict(j['quick'], bounds=j['quick']['bounds'] + '; entered through real_main(argv)'); q['thorough'] = dict(j['thorough'], bounds=j['thorough']['bounds'] + '; entered through real_main(argv)')
        if thorough_only: q['thorough_only'] = True
        out.append(q)
    return out
CHECKS['C01']['jobs'] += _via_main(_hist_jobs('CHECK_C01', 2, 3, [29], reach=('built', 'incremental-build', 'manifest-regenerated')) + _hist_jobs('CHECK_C01', 2, 3, [0]))

def _tool_jobs(scenarios, mode=None, reach=(), bounds='', thorough_only=False):
    jobs = []
    for i in scenarios:
        j = dict(name='%s_%s' % (SCENARIOS[i], 'toolclean' if mode else 'tools'), harness='tools.cc', units=PIPELINE, defines=['SCENARIO=%d' % i] + ([mode] if mode else []), iquote=True, support=['getopt_model.c'],
                 reach=list(reach), limits=dict(max_steps=60000000, time=1500), bounds='scenario %s: %s' % (SCENARIOS[i], bounds))
        if thorough_only: j['thorough_only'] = True
        jobs.append(j)
    return jobs
_TOOLS_BOUNDS = 'fully built tree, then at most one source edited and at most one built file deleted; one of 17 tool invocations (commands, commands -s, inputs, multi-inputs -d, query, targets all|rule|depth, rules, graph, compdb, compdb -x, compdb-targets, deps, missingdeps, restat, recompact) or -n, on a symbolic target, entered through real_main(argv); then the real build'
CHECKS['C19']['jobs'] += _tool_jobs([0, 2], reach=('read-only-tool', 'commands', 'inputs', 'compdb', 'dry-run'), bounds=_TOOLS_BOUNDS)
CHECKS['C19']['jobs'] += _tool_jobs([6, 5], reach=('read-only-tool', 'commands', 'inputs', 'compdb', 'dry-run'), bounds=_TOOLS_BOUNDS)
CHECKS['C18']['jobs'] += _tool_jobs([2, 6], mode='MODE_CLEAN', reach=('clean-all', 'clean-all-g', 'clean-target', 'clean-rule', 'dry-run'), bounds='fully built tree, then at most one source edited and one built file deleted; ninja [-n] -t clean [-g | target | -r rule] through ToolClean; then a full build')
CHECKS['C02']['jobs'] += _via_main(_hist_jobs('CHECK_C02', 2, 3, [29], reach=('built', 'converged-checked', 'manifest-regenerated')))
CHECKS['C05']['jobs'] += _via_main(_mode_jobs('MODE_FAIL', [0], reach=('failed', 'retried', 'all-succeeded', 'missing-source'), bounds='one invocation from the empty tree; any subset of commands fails with exit code 1..3, touched or not; -k in {1,2,0}; -j in {1,2,3}; any one source missing'))
CHECKS['C07']['jobs'] += _via_main(_mode_jobs('MODE_CRASH', [3], extra=['INTERRUPT'], suffix='_interrupt', reach=('interrupted', 'recovered'), bounds='interrupt at any wait, running commands touched their outputs or not; recovery build'))
CHECKS['C07']['jobs'] += _via_main(_mode_jobs('MODE_CRASH', [1], reach=('died', 'survived', 'recovered'), quick_defs=['VERIF_MAX_EVENTS=40'], bounds='build from the empty tree killed after persistence event 0..40, -j in {1,2}, every completion order; recovery build; no-op build'))
CHECKS['C19']['jobs'] += _via_main(_mode_jobs('MODE_DRYRUN', [0], reach=('compared', 'nothing-to-do'), bounds='fully built tree + symbolic edits/deletions, symbolic target subset, -j in {1,2}; dry run then real run'))
CHECKS['C17']['jobs'] += _via_main(_mode_jobs('MODE_CYCLE', [16], reach=('cycle-diagnosed', 'acyclic-built'), bounds='symbolic target subset, -j in {1,2}, two invocations'))
CHECKS['C20']['jobs'] += _via_main(_mode_jobs('MODE_STATUS', [5], reach=('success', 'output-shown'), bounds='one invocation from the empty tree, -j in {1,2,3}, each command prints or not, every completion order'))
CHECKS['C06']['jobs'] += _via_main(_mode_jobs('MODE_SCHED', [9], extra=['WITH_FAILURES'], suffix='_fail', reach=('built',), bounds='one invocation from the empty tree with any subset of commands failing, -k in {1,2}, -j in {1,2,3}, every completion order'))
CHECKS['C18']['jobs'] += [dict(j, name='dead_outputs_cleandead') for j in _tool_jobs([30], mode='MODE_CLEANDEAD', reach=('cleandead', 'recompacted'), bounds='full build, then statements removed from the manifest (one former output becomes a source); optionally -t recompact and/or a build first; ninja -n -t cleandead, ninja -t cleandead, build')]
CHECKS['C19']['jobs'] += _tool_jobs([7], reach=('read-only-tool', 'log-tool', 'commands', 'inputs', 'compdb', 'dry-run'), bounds=_TOOLS_BOUNDS)
CHECKS['C19']['jobs'] += _tool_jobs([31], reach=('read-only-tool', 'commands', 'inputs', 'compdb', 'dry-run'), bounds=_TOOLS_BOUNDS)
CHECKS['C08']['jobs'] += _hist_jobs('CHECK_C08', 2, 3, [32], extra_defs=['CHECK_C02'], reach=('built', 'incremental-build', 'records-checked', 'converged-checked'))
CHECKS['C08']['level_text'] += ' A pipeline job runs histories of whole builds in which a generator command runs `ninja -t restat` (the real BuildLog::Restat, temporary file + rename) while the outer ninja holds the log open, and asserts that every record of the session is in the log afterwards and the next build has nothing to do.'
CHECKS['C02']['jobs'] += _hist_jobs('CHECK_C02', 2, 3, [32], reach=('built', 'converged-checked'))
CHECKS['C04']['jobs'] += _mode_jobs('MODE_SCHED', [33], suffix='_sched', reach=('built', 'parallel'), bounds='one invocation from the empty tree, -j in {1,2,3}, every completion order')
CHECKS['C11']['jobs'] += _mode_jobs('MODE_SCHED', [33], suffix='_sched', reach=('built',), bounds='one invocation from the empty tree, -j in {1,2,3}, every completion order (the dyndep file is an order-only input listed after another one)')
CHECKS['C07']['jobs'] += _mode_jobs('MODE_CRASH', [35], extra=['FROM_BUILT', 'SINGLE_EDIT', 'DOUBLE_EDIT', 'OPS_BEFORE_RECOVERY', 'PARTIAL_WRITES'], suffix='_partial', reach=('died', 'recovered'), quick_defs=['VERIF_MAX_EVENTS=12'],
    bounds='fully built tree, one source edited (by 1 or 2), build killed after persistence event 0..12 while a command may have left partially written outputs, one more edit, recovery build, no-op build')
CHECKS['C07']['jobs'] += _mode_jobs('MODE_CRASH', [26], extra=['FROM_BUILT', 'SINGLE_EDIT', 'DOUBLE_EDIT', 'OPS_BEFORE_RECOVERY', 'PARTIAL_WRITES'], suffix='_partial', reach=('died', 'recovered'), quick_defs=['VERIF_MAX_EVENTS=12'], thorough_only=True,
    bounds='the same on a shape with an order-only input and a manifest variant (changed command line) that the user may switch before the killed build and again before the recovery build')
CHECKS['C07']['level_text'] += ' One job lets a command that dies with ninja leave partially written outputs (newer than every input, garbage content, nothing recorded) and lets the user edit again before the recovery build.'
CHECKS['C10']['jobs'] += _hist_jobs('CHECK_C10', 3, 3, [36], extra_defs=['SINGLE_EDIT', 'NO_DELETE'], reach=('built', 'incremental-build'))
CHECKS['C10']['jobs'][-1]['quick']['bounds'] = CHECKS['C10']['jobs'][-1]['quick']['bounds'].replace('any subset of sources edited', 'at most one source edited').replace(', at most one output/depfile deleted', '') + '; the set of headers a command includes changes when its source is edited (same number of headers, the output unchanged under a restat rule)'

def _logtool_jobs(scenarios):
    out = []
    for j in _tool_jobs(scenarios, reach=('log-tool',), bounds='fully built tree, then at most one source edited and at most one built file deleted; ninja -t restat or ninja -t recompact through real_main; the next build must run exactly what a control build from the same state runs'):
        q = dict(j); q['name'] = j['name'].replace('_tools', '_logtools'); q['defines'] = list(j['defines']) + ['ONLY_LOG_TOOLS']; out.append(q)
    return out
CHECKS['C03']['jobs'] += _logtool_jobs([7])
CHECKS['C08']['jobs'] += _logtool_jobs([0, 7])
CHECKS['C11']['jobs'] += _logtool_jobs([7, 37])
CHECKS['C13']['jobs'] += _mode_jobs('MODE_DEPFILE_BYTES', [3], suffix='_depfile_bytes', reach=('arbitrary', 'mutated', 'accepted', 'rejected'), quick_defs=['VERIF_N=2'], thorough_defs=['VERIF_N=3'],
    bounds='the command writes a depfile of 0..2 (thorough: 3) arbitrary bytes, or a valid depfile with one byte replaced at any position; two invocations, so that ImplicitDepLoader::LoadDepFile (plain depfile) reads it')
CHECKS['C13']['jobs'] += _mode_jobs('MODE_DEPFILE_BYTES', [1], suffix='_depfile_bytes', reach=('arbitrary', 'mutated', 'accepted', 'rejected'), quick_defs=['VERIF_N=1'], thorough_defs=['VERIF_N=2'],
    bounds='the same with 0..1 (thorough: 2) arbitrary bytes for a deps=gcc statement (Builder::ExtractDeps, deps log)')
CHECKS['C13']['level_text'] += ' Two pipeline jobs feed arbitrary depfile bytes through the consumers of the parsed depfile (Builder::ExtractDeps, ImplicitDepLoader::LoadDepFile) inside whole builds.'

def _midrun(jobs):
    out = []
    for j in jobs:
        q = dict(j); q['name'] = j['name'] + '_midrun'; q['defines'] = list(j['defines']) + ['MIDRUN_EDITS']; q['reach'] = list(j['reach']) + ['edited-while-running']
        for t in ('quick', 'thorough'): q[t] = dict(j[t], bounds=j[t]['bounds'] + '; in all but the last invocation the user may save one source while a (non-restat, non-generator) command that has read it is still running')
        out.append(q)
    return out
CHECKS['C01']['jobs'] += _midrun(_hist_jobs('CHECK_C01', 2, 3, [0, 3, 8]))
CHECKS['C11']['jobs'] += _midrun(_hist_jobs('CHECK_C11', 2, 2, [38], reach=('built',)))
CHECKS['C01']['level_text'] += ' Further jobs let the user save a source while a command that has already read it is still running; the build after that must pick the edit up (restat and generator rules excepted).'

_DISK_UNITS = ['disk_interface', 'util', 'string_piece_util', 'edit_distance']
_disk_job = dict(name='real_disk', harness='c16_disk.cc', units=_DISK_UNITS, stubs=True, reach=['overwrote', 'created', 'nested-dirs'],
                 quick=dict(defines=['VERIF_N=2'], bounds='RealDiskInterface: output path 0..3 directories deep, an older file of 0..4 arbitrary bytes present or not, new content of 0..2 arbitrary bytes; MakeDirs, WriteFile, ReadFile, Stat, RemoveFile'),
                 thorough=dict(defines=['VERIF_N=3'], bounds='the same with contents of 0..3 / 0..5 bytes', limits=dict(time=3000, max_paths=3000000)))
CHECKS['C16']['jobs'].append(dict(_disk_job)); CHECKS['C04']['jobs'].append(dict(_disk_job))
CHECKS['C16']['level_text'] += ' One job drives the real RealDiskInterface (WriteFile, ReadFile, MakeDirs, Stat, RemoveFile) on the in-memory file system with arbitrary old and new contents.'
CHECKS['C17']['jobs'] += _mode_jobs('MODE_CYCLE', [39], reach=('acyclic-built', 'reorganised'), bounds='a depfile / deps-log record naming a file that the reorganised manifest (second invocation) generates from the recording statement itself, whose command line changed: no cycle exists, none may be reported')
CHECKS['C06']['jobs'] += _mode_jobs('MODE_SCHED', [40], reach=('built',), bounds='a phony statement bound to the console pool becomes ready in the middle of the build; -j in {1,2,3}, every completion order')
CHECKS['C20']['jobs'] += _mode_jobs('MODE_STATUS', [40], reach=('success', 'output-shown'), bounds='a phony statement bound to the console pool becomes ready in the middle of the build; -j in {1,2,3}, each command prints or not, every completion order')
CHECKS['C20']['jobs'] += _mode_jobs('MODE_STATUS', [9, 5], extra=['SMART_TERMINAL', 'WITH_FAILURES'], suffix='_smart', reach=('success', 'failure', 'output-shown', 'smart-terminal'), bounds='stdout is a terminal of unknown width, 24 or 200 columns (LinePrinter smart mode: overprinted, elided status lines); -j in {1,2,3}, each command prints or not, any subset fails, -k in {1,2}, every completion order')
CHECKS['C14']['jobs'].append(dict(name='callers', harness='c12_manifest.cc', units=_PARSE_UNITS + ['disk_interface'], defines=['MODE_SPELLINGS'], reach=['other-spelling', 'canonical-spelling', 'dyndep-file'],
    bounds='6 spellings of one path x 9 places where a path enters ninja (explicit / implicit / order-only input, validation, default, output, implicit output, implicit input and statement of a dyndep file) x {LF, CRLF}'))
CHECKS['C14']['level_text'] += ' A third job checks the places where a path enters ninja (every position of a manifest statement, default, dyndep file): whatever the spelling, the path must resolve to the one Node of the canonical name; depfile and deps-log paths are covered by C10/depfile_noncanonical_path, command-line targets by the C19 *_tools jobs (the target is also spelled ./name).'
CHECKS['C16']['jobs'] += _mode_jobs('MODE_SCHED', [27], extra=['WITH_FAILURES'], suffix='_rspfile_fail', reach=('built', 'rspfile-kept'), bounds='response files with any subset of commands failing, -k in {1,2}, -j in {1,2,3}: removed after success, kept after failure')

# ---- the real process layer (RealCommandRunner, SubprocessSet, Subprocess, PosixJobserverClient) over the modelled operating system of harness/osmodel.h
_OS_WRAP = ['pipe', 'close', 'read', 'write', 'open', 'fstat', 'sigemptyset', 'sigaddset', 'sigismember', 'sigprocmask', 'sigpending', 'sigaction', 'posix_spawn_file_actions_init', 'posix_spawn_file_actions_destroy',
            'posix_spawn_file_actions_addclose', 'posix_spawn_file_actions_addopen', 'posix_spawn_file_actions_adddup2', 'posix_spawnattr_init', 'posix_spawnattr_destroy', 'posix_spawnattr_setsigmask',
            'posix_spawnattr_setflags', 'posix_spawn', 'waitpid', 'kill', 'ppoll', 'getloadavg']
def _real_runner(jobs, thorough_only=False):
    out = []
    for j in _via_main(jobs, thorough_only):
        q = dict(j); q['name'] = j['name'][:-5] + '_procs'; q['defines'] = list(j['defines']) + ['REAL_RUNNER']; q['units'] = list(PIPELINE) + ['real_command_runner', 'subprocess-posix', 'jobserver-posix']
        q['stubs_defines'] = ['VERIF_REAL_RUNNER']; q['wrap'] = _OS_WRAP
        for t in ('quick', 'thorough'): q[t] = dict(q[t], bounds=q[t]['bounds'].replace('entered through real_main(argv)', 'entered through real_main(argv) with the real RealCommandRunner / SubprocessSet / jobserver client over a modelled OS: symbolic output chunking, exit codes and signals, SIGCHLD-before-EOF, pending vs delivered interrupt signal'))
        out.append(q)
    return out
CHECKS['C20']['jobs'] += _real_runner(_mode_jobs('MODE_STATUS', [9], extra=['WITH_FAILURES'], suffix='_fail', reach=('failure', 'success', 'output-shown'), bounds='one invocation from the empty tree, -j in {1,2,3}, each command prints or not, any subset fails, -k in {1,2}, every completion order'))
CHECKS['C05']['jobs'] += _real_runner(_mode_jobs('MODE_FAIL', [13], reach=('failed', 'retried', 'all-succeeded'), bounds='one invocation from the empty tree; any subset of commands fails with exit code 1..3 or dies by SIGSEGV/SIGKILL, touched or not; -k in {1,2,0}; -j in {1,2,3}'))
CHECKS['C06']['jobs'] += _real_runner(_mode_jobs('MODE_SCHED', [9], reach=('built',), bounds='one invocation from the empty tree, -j in {1,2,3}, every completion order'))
CHECKS['C06']['jobs'] += _real_runner(_mode_jobs('MODE_SCHED', [13], extra=['WITH_JOBSERVER', 'WITH_FAILURES'], suffix='_tokens_fail', reach=('tokens-success', 'tokens-failure'), bounds='jobserver FIFO (MAKEFLAGS --jobserver-auth=fifo:) holding 0..2 tokens, any command may fail, -k in {1,2}'))
CHECKS['C06']['jobs'] += _real_runner(_mode_jobs('MODE_SCHED', [34], extra=['WITH_JOBSERVER'], suffix='_tokens', reach=('tokens-success', 'token-arrived', 'woken-for-token', 'watching-with-console-only'), bounds='pools and console commands as a jobserver client: FIFO holding 0..2 tokens, another client may return one token while ninja waits'))
CHECKS['C07']['jobs'] += _real_runner(_mode_jobs('MODE_CRASH', [5], extra=['INTERRUPT'], suffix='_interrupt', reach=('interrupted', 'recovered', 'lingering-command'), bounds='SIGINT / SIGTERM / SIGHUP at any wait, delivered during the poll or left pending; running commands touched their outputs or not, die at once or only while ninja waits for them; recovery build'))

# ---- level texts / notes for what was added on top of the first version of each check
_MAIN = ' Jobs named *_main enter the same harness through ninja.cc itself: real_main(argv) with the real flag parsing (a 60-line getopt model stands in for libc getopt_long), NinjaMain (manifest load, OpenBuildLog/OpenDepsLog, the RebuildManifest loop, RunBuild) and the real StatusPrinter; only the type of NinjaMain::disk_interface_ is swapped for the harness disk and CommandRunner::factory hands out the harness runner.'
_PROCS = ' Jobs named *_procs additionally execute the real process layer (src/real_command_runner.cc, src/subprocess-posix.cc, src/jobserver-posix.cc) above a model of the system calls it uses (harness/osmodel.h: pipe, posix_spawn, ppoll, read, waitpid, kill, sigaction, a jobserver FIFO): when a command writes which part of its output, when it exits and with which status or signal, whether SIGCHLD interrupts the poll before the pipe reaches end of file, whether an interrupt is delivered during the poll or left pending, and when another jobserver client returns a token are symbolic.'
CHECKS['C01']['level_text'] += _MAIN + ' One of them regenerates the manifest (build.ninja is the output of a generator statement; editing configure.in selects the next manifest variant) and compares with the from-scratch build under the regenerated manifest. A command\'s result also depends on its evaluated command line and response-file content (generator rules excepted), so a stale output after a command-line change is a content mismatch.'
CHECKS['C01']['level_note'] = CHECKS['C01']['level_note'].replace('Manifest regeneration through NinjaMain::RebuildManifest and histories containing interrupted builds are covered by C07, not here.', 'Manifest regeneration through NinjaMain::RebuildManifest is covered by the regen_manifest_main jobs; histories containing interrupted or killed builds are covered by C07.')
CHECKS['C02']['level_text'] += _MAIN
CHECKS['C05']['level_text'] += _MAIN + _PROCS + ' There the exit status is what Subprocess::Finish / ParseExitStatus make of a symbolic wait status (exit code 1..3, SIGSEGV, SIGKILL) and what real_main hands to exit().'
CHECKS['C05']['level_note'] = CHECKS['C05']['level_note'].replace('ParseExitStatus in subprocess-posix.cc is outside the encoding (SubprocessSet is a cut point); exit code 130 is covered by C07.', 'ParseExitStatus is executed in the *_procs jobs; exit code 130 is covered by C07.')
CHECKS['C06']['level_text'] += _MAIN + _PROCS + ' The *_procs jobs check the limits against the real RealCommandRunner::CanRunMore and the real FIFO client (tokens read == tokens written back, same byte values, every descriptor closed, every child reaped, a poll that reported "token available" is followed by an attempt to take it).'
CHECKS['C06']['level_note'] = CHECKS['C06']['level_note'].replace('RealCommandRunner::CanRunMore is mirrored by the harness runner (with a jobserver the capacity is unlimited and Plan::FindWork token acquisition limits the jobs).', 'In the jobs without the process layer RealCommandRunner::CanRunMore is mirrored by the harness runner; the *_procs jobs run the real one. getloadavg (-l) is not modelled.')
CHECKS['C07']['level_text'] += _MAIN + _PROCS + ' In the *_procs interrupt jobs ninja must signal exactly the process groups of the commands that do not share its terminal, with the signal it received, reap every child and restore its handlers.'
CHECKS['C17']['level_text'] += _MAIN
CHECKS['C20']['level_text'] += _MAIN + _PROCS + ' There a command\'s output reaches ninja through Subprocess::OnPipeReady in one or two reads, interleaved with the other commands\' events.'
CHECKS['C20']['level_note'] = CHECKS['C20']['level_note'].replace('The subprocess pipes (Subprocess::OnPipeReady), the smart-terminal path (ioctl, cursor control) and custom status formats are outside this check', 'The *_smart jobs run LinePrinter in smart-terminal mode (isatty and ioctl(TIOCGWINSZ) answered by the harness). Custom status formats are outside this check')
CHECKS['C19']['level_text'] += _MAIN + ' The *_tools jobs run, from a fully built and then perturbed tree, one of -t commands, commands -s, inputs, multi-inputs, query, targets (all, rule, depth), rules, graph, compdb, compdb -x, compdb-targets, deps, missingdeps, or -n, through real_main on a symbolic target: no command may start, the tree and both logs must be byte-identical afterwards, what the tool prints is compared with the declared-input reference (commands in dependency order, inputs, kinds, compdb parsed as JSON and compared entry by entry), and the next real build must start exactly the commands a control build from the same state starts (the state is saved, the control build is run, the state is restored).'
CHECKS['C19']['level_note'] = CHECKS['C19']['level_note'].replace("The read-only tools of ninja.cc (-t commands, inputs, query, targets, rules, graph, compdb, deps, missingdeps) are not driven: only their JSON string encoder and the dry-run path are encoded; directory", "The read-only tools are driven through real_main on the catalogue shapes (browse, msvc, urtle and wincodepage are not); their output is compared with the reference for commands, inputs, query, targets all and compdb, the others are only checked for being read-only. Directory")
CHECKS['C19']['assumptions'] = [a for a in CHECKS['C19']['assumptions'] if 'tools themselves are outside' not in a] + ['tool output is compared with the reference on the catalogue shapes only; JSON string encoding is checked on arbitrary bytes separately']
CHECKS['C18']['level_text'] += ' Further jobs go through ToolClean / ToolCleanDead in ninja.cc (real_main with -t clean [-g] [target] [-r rule], -n, -t cleandead, -t recompact) on pipeline shapes: scope and count are checked against the reference, a following build must re-create everything, and cleandead after statements were removed from the manifest must delete exactly the former outputs that appear nowhere in the new graph (also when the log was recompacted in between).'
CHECKS['C08']['level_text'] += ' The *_logtools jobs run -t restat / -t recompact through real_main between builds and require the next build to start exactly what a control build from the same state starts.'
CHECKS['C03']['level_text'] += ' One job runs -t restat / -t recompact between builds of a dyndep shape and requires the next build to start exactly what a control build from the same state starts.'
CHECKS['C04']['level_text'] += ' One job drives the real RealDiskInterface (MakeDirs, WriteFile, Stat, RemoveFile) on the in-memory file system.'
CHECKS['C09']['level_text'] += ' One job kills a recompacting session after every persistence event of the recompaction (temporary file, flushes, rename) and continues with the usual sessions.'
CHECKS['C10']['level_text'] += ' One shape changes the set of headers a command includes when its source is edited (same number of headers, output unchanged under a restat rule), over three invocations.'
CHECKS['C11']['level_text'] += ' Further shapes: the dyndep file as an order-only input listed after another one, a checked-in dyndep file whose implicit output another statement names as an input (with -t restat / -t recompact between builds), and a dyndep binding at rule level whose dyndep file sets restat.'
CHECKS['C12']['level_text'] += ' A fourth family reads two child files one after the other (each by include or subninja) with a rule declared at the top and/or in the first child, and checks in which scope each use of the rule name resolves (or that the manifest is rejected).'

# ---- tiering: which jobs run in the quick tier (measured on 16 cores; the rest is thorough only) -------------------------------------------
def _single_edit_variant(prop, job_name):
    """for a heavy shape: the quick tier edits at most one source per round, the thorough tier any subset"""
    for j in CHECKS[prop]['jobs']:
        if j['name'] == job_name:
            q = dict(j); q['name'] = job_name + '_single_edit'; q['defines'] = list(j['defines']) + ['SINGLE_EDIT']
            q['quick'] = dict(j['quick'], bounds=j['quick']['bounds'].replace('any subset of sources edited', 'at most one source edited'))
            q.pop('thorough_only', None); q['thorough'] = q['quick']
            j['thorough_only'] = True
            CHECKS[prop]['jobs'].append(q); return
def _thorough_only(prop, names):
    for j in CHECKS[prop]['jobs']:
        if j['name'] in names: j['thorough_only'] = True
_single_edit_variant('C01', 'dyndep'); _thorough_only('C01', ['pools'])
for _j in CHECKS['C05']['jobs']:
    if _j['name'] == 'depfile_plain_built': _j.pop('thorough_only', None)
_thorough_only('C02', ['diamond_order_only', 'dyndep', 'pools'])
_thorough_only('C03', ['pools'])
_thorough_only('C19', ['dyndep_tools'])
_single_edit_variant('C04', 'dyndep')
_single_edit_variant('C11', 'dyndep'); _single_edit_variant('C11', 'dyndep_two_files')
for _j in CHECKS['C13']['jobs']:
    if _j['name'] == 'depfile': _j['quick'] = dict(defines=['VERIF_N=3'], bounds='every byte string of length 0..3')

def _h3_variant(prop, job_name):
    """a three-invocation history of a small shape already in the quick tier (at most one source edited per round)"""
    for j in CHECKS[prop]['jobs']:
        if j['name'] == job_name:
            q = dict(j); q['name'] = job_name + '_h3'; q['defines'] = list(j['defines']) + ['SINGLE_EDIT']
            q['quick'] = dict(defines=['HISTORY=3'], bounds=j['quick']['bounds'].replace('2 invocations', '3 invocations').replace('any subset of sources edited', 'at most one source edited'))
            q['thorough'] = q['quick']; q.pop('thorough_only', None)
            CHECKS[prop]['jobs'].append(q); return
_h3_variant('C03', 'restat_with_deps'); _h3_variant('C10', 'restat_with_deps'); _h3_variant('C01', 'restat_then_deps')
for _j in CHECKS['C19']['jobs']:
    if _j['name'] == 'restat_then_deps_leftovers': _j['reach'] = ['compared']      # (no output of this shape lives in a directory: the dry run cannot be stopped by a failing mkdir)

# ---- third session: shapes and faults suggested by the fourth wave of independently written changes (seeded/*-D) and by what their authors noticed on the unchanged tree
SCENARIOS += ['dyndep_input_in_pool', 'phony_mixed_restat', 'pruned_depfile_dir']     # 41 .. 43
CHECKS['C06']['jobs'] += _mode_jobs('MODE_SCHED', [41], reach=('built', 'parallel'), bounds='a statement in a depth-2 pool that is ready when the build starts and that a dyndep file loaded mid-build names as an input of another statement; -j in {1,2,3}, every completion order')
CHECKS['C06']['jobs'] += _mode_jobs('MODE_SCHED', [2], extra=['WITH_JOBSERVER', 'STAT_MAY_FAIL'], suffix='_tokens_statfail', reach=('tokens-success', 'tokens-failure', 'stat-failed'), bounds='jobserver pool of 0..2 explicit tokens plus the implicit one; one stat() call after the first command start may fail with an I/O error')
CHECKS['C01']['jobs'] += _hist_jobs('CHECK_C01', 2, 3, [42])
CHECKS['C03']['jobs'] += _hist_jobs('CHECK_C03', 2, 3, [42], reach=('built', 'minimality-checked'))
CHECKS['C04']['jobs'] += _mode_jobs('MODE_SCHED', [43], suffix='_sched', reach=('built',), bounds='one invocation from the empty tree, -j in {1,2,3}, every completion order; one command prunes empty directories (the depfile directory is empty again once ninja has read and removed a deps=gcc depfile)')
CHECKS['C16']['jobs'].append(dict(name='in_and_newline', harness='c16_escape.cc', units=_C16_UNITS, defines=['MODE_BOTH'], reach=['several-names', 'one-name', 'command', 'rspfile_content', 'description'],
    quick=dict(defines=['VERIF_NAMES=2', 'VERIF_LEN=1'], bounds='one statement with command = $in, rspfile_content = $in_newline, description = $out; 1..2 explicit inputs of 1 byte; three evaluations in every order (with repetitions), then EvaluateCommand(incl_rsp_file)'),
    thorough=dict(defines=['VERIF_NAMES=2', 'VERIF_LEN=2'], bounds='the same with names of 1..2 bytes', limits=dict(time=3000, max_paths=2000000))))
CHECKS['C12']['jobs'].append(dict(name='attrs', harness='c12_manifest.cc', units=_PARSE_UNITS, defines=['MODE_ATTRS'], reach=['build-block', 'rule', 'file', 'parent-file', 'rejected'],
    bounds='7 statement attributes (dyndep, depfile, deps, restat, generator, description, pool) x bound in {build block, rule, file, subninja parent} x statement with/without its own block x {LF, CRLF} x dyndep file listed as input or not'))
CHECKS['C12']['level_text'] += ' A fifth family binds each attribute ninja itself reads from a statement (dyndep, depfile, deps, restat, generator, description, pool) at each level of the documented lookup order and checks that the statement gets it.'
CHECKS['C13']['jobs'].append(dict(name='manifest_rulevars', harness='c13_inputs.cc', units=_PARSE_UNITS, defines=['MODE_RULEVARS'], hooks=['const_hash'], budget_overrun_is_violation=True,
    limits=dict(max_steps=400000, max_depth=200), reach=['evaluated'], bounds='a rule whose variables description, rspfile, rspfile_content each consist of two references chosen from {literal, $description, $rspfile, $rspfile_content} (4^6 reference graphs), command = $description $rspfile; every variable evaluated, in two orders'))
SCENARIOS += ['dyndep_input_also_order_only']     # 44
CHECKS['C11']['jobs'] += _hist_jobs('CHECK_C11', 2, 3, [44], extra_defs=['SINGLE_EDIT'], reach=('built', 'incremental-build'))
CHECKS['C11']['jobs'][-1]['quick']['bounds'] = CHECKS['C11']['jobs'][-1]['quick']['bounds'].replace('any subset of sources edited', 'at most one source edited') + '; the input the dyndep file adds is already listed as an order-only input of the statement'
CHECKS['C08']['jobs'].append(dict(name='longnames', harness='c08_buildlog.cc', units=_C08_UNITS, defines=['MODE_LONGNAMES'], reach=['reloaded', 'appended', 'recompacted', 'restatted'], limits=dict(max_steps=200000000, time=1500),
    bounds='three statements whose output names are L, 3 and L+1 bytes long, L from 65 lengths between 1 and 300000 clustered around 256, 512, 1024, 2048, 4096 and the 256 KiB line buffer of the reader; written by the real writer (one output recorded twice), reloaded, then {reload, append, recompact, restat} and reloaded again'))
CHECKS['C09']['jobs'].append(dict(name='older_mtime', harness='c09_depslog.cc', units=_C09_UNITS, defines=['DAMAGE_TEAR', 'CONCRETE_SEQ', 'SEQ_BASE=3', 'VERIF_SEQS=1', 'VERIF_MAXREC=4'], reach=['tear-none', 'tear-some', 'recompact-2', 'recompact-3', 'done'],
    bounds='1 sequence x 1..4 records in which an output is recorded again with the same dependencies and an older mtime (and once more unchanged), another with mtime 0 (its command did not create it); torn at every byte offset, 4 choices of appended record, recompaction never / in session 2 / in session 3'))
CHECKS['C20']['jobs'] += _real_runner(_mode_jobs('MODE_STATUS', [5], extra=['LONG_OUTPUT'], suffix='_long', reach=('success', 'output-shown'), bounds='one invocation from the empty tree, -j in {1,2,3}, each command prints or not; what a command prints is longer (4.2 KiB) than one read from its pipe, or short; written in two parts or all at once when it exits; every completion order'))
for _j in CHECKS['C06']['jobs']:
    if _j['name'] == 'pools_procs': _j['reach'] = list(_j['reach']) + ['coalesced-sigchld']; _j['quick'] = dict(_j['quick'], bounds=_j['quick']['bounds'] + '; two commands may exit before the SIGCHLD handler runs once'); _j['thorough'] = dict(_j['thorough'], bounds=_j['thorough']['bounds'] + '; two commands may exit before the SIGCHLD handler runs once')

# ---- level texts for the third session's jobs
CHECKS['C06']['level_text'] += ' Further jobs: a statement in a depth-limited pool that is ready at the start and is named as an input by a dyndep file loaded mid-build (each command at most once); a stat() I/O error after the first command start as a symbolic fault with a jobserver pool (every token returned on that path too); in the *_procs jobs two commands may exit before the SIGCHLD handler runs once (siginfo of the first).'
CHECKS['C04']['level_text'] += ' One shape contains a tidy-up command that prunes empty directories (the depfile directory is empty again once ninja has read and removed a deps=gcc depfile): the directories of outputs and depfile must exist at every later command start all the same.'
CHECKS['C01']['level_text'] += ' One shape puts a phony alias over a restat output and a source, with consumers behind the alias through an implicit and through an order-only input.'
CHECKS['C03']['level_text'] += ' The same phony-over-restat-and-source shape is checked for minimality.'
CHECKS['C07']['level_text'] += ' In the *_procs interrupt jobs a signalled command may die at once or only while ninja waits for it (touching its outputs until then): ninja must have reaped every child before it inspects and removes outputs.'
CHECKS['C08']['level_text'] += ' A further job writes records whose output names have 60 different lengths up to 64 KiB (clustered around 256, 512, 1024, 2048, 4096) through the real writer and reads them back, then appends, recompacts or restats and reads again.'
CHECKS['C09']['level_text'] += ' One sequence records an output again with the same dependencies and an older mtime (an output restored from a cache): the mtime returned must be the one recorded last.'
CHECKS['C11']['level_text'] += ' One shape lets the dyndep file add as an implicit input a file the statement already lists as an order-only input.'
CHECKS['C13']['level_text'] += ' A structure-aware job evaluates every variable of a rule whose description, rspfile and rspfile_content each consist of two references chosen among those variables and a literal (all 4^6 reference graphs): evaluation ends, or ends in the documented fatal "cycle in rule variables", never in unbounded recursion.'
CHECKS['C16']['level_text'] += ' One job uses $in on the command line and $in_newline in the response file of the same statement (and $out in the description), evaluated in every order and repeatedly, each against the sh model, so that what one expansion leaves behind cannot leak into another.'
CHECKS['C20']['level_text'] += ' One *_procs job lets commands print more (4.2 KiB) than ninja reads from a pipe at once, in two parts or all at once together with the hang-up.'
CHECKS['C06']['jobs'] += _real_runner(_mode_jobs('MODE_SCHED', [13], extra=['LOAD_LIMIT=2'], suffix='_load', reach=('built', 'started-under-load-limit', 'started-alone-despite-load'), bounds='ninja -l 2 -j {1,2,3}: the load average (0 or 50) changes while ninja waits; every completion order'))
CHECKS['C06']['level_text'] += ' One *_procs job runs with -l 2 while the load average reported by getloadavg changes between 0 and 50 at every wait: no further command may start while the load exceeds the limit, and the build still finishes (one command at a time).'
CHECKS['C06']['assumptions'] = [a for a in CHECKS['C06']['assumptions'] if 'load-average' not in a]
CHECKS['C06']['jobs'] += _mode_jobs('MODE_SCHED', [41], extra=['WITH_FAILURES'], suffix='_fail', reach=('built',), bounds='the same shape with any subset of commands failing, -k in {1,2}: a statement that failed before the dyndep file naming its output is loaded')

# ---- fourth session
CHECKS['C20']['jobs'] += _mode_jobs('MODE_STATUS', [9], extra=['WITH_FAILURES', 'CUSTOM_FORMAT'], suffix='_custom_format', reach=('success', 'failure', 'ninja-status-format', 'status-option-format'), bounds='progress prefix given by $NINJA_STATUS (%s %f %t %r %u %p %%) or by --status ($started $finished $total $running $remaining $progress $description); -j in {1,2,3}, each command prints or not, any subset fails, -k in {1,2}, every completion order')
CHECKS['C20']['jobs'] += _mode_jobs('MODE_STATUS', [5], extra=['SMART_TERMINAL', 'CUSTOM_FORMAT'], suffix='_smart_custom_format', reach=('success', 'smart-terminal', 'ninja-status-format', 'status-option-format'), bounds='the same two custom formats on a terminal (status printed at command start and at command end)')
CHECKS['C20']['jobs'] += _via_main(_mode_jobs('MODE_STATUS', [0], extra=['CUSTOM_FORMAT', 'WITH_FAILURES'], suffix='_custom_format', reach=('success', 'failure', 'ninja-status-format', 'status-option-format'), bounds='the two custom formats through the environment / the --status command-line option'))
CHECKS['C20']['jobs'] += _mode_jobs('MODE_STATUS', [9], extra=['WITH_FAILURES', 'OUTPUT_BYTES'], suffix='_bytes', reach=('success', 'failure', 'output-shown'), bounds='what commands print is plain text, text with ANSI colour sequences (removed when stdout is not a terminal) or NUL / control / high bytes (shown unchanged); -j in {1,2,3}, any subset fails, -k in {1,2}, every completion order')
CHECKS['C20']['jobs'] += _mode_jobs('MODE_STATUS', [9], extra=['SMART_TERMINAL', 'OUTPUT_BYTES'], suffix='_smart_bytes', reach=('success', 'output-shown', 'smart-terminal'), bounds='the same output flavours on a terminal (colour sequences kept)')
CHECKS['C20']['jobs'] += _real_runner(_mode_jobs('MODE_STATUS', [5], extra=['OUTPUT_BYTES'], suffix='_bytes', reach=('success', 'output-shown'), bounds='the same output flavours read from the command\'s pipe by Subprocess::OnPipeReady in one or two reads'))
CHECKS['C20']['level_text'] += ' Further jobs give the progress prefix through $NINJA_STATUS or --status with every counter spelled out and check each status line for consistency (finished <= started <= total, remaining == total - started, running, percentage), and let commands print ANSI colour sequences (stripped for a non-terminal, kept on a terminal) or NUL, control and high bytes (shown unchanged, exactly once).'
CHECKS['C20']['level_note'] = CHECKS['C20']['level_note'].replace('Custom status formats are outside this check', 'Rate and time placeholders (%o %c %e %w %E %W %P) of custom status formats are outside this check')

CHECKS['C09']['jobs'].append(dict(name='duplicate_dep', harness='c09_depslog.cc', units=_C09_UNITS, defines=['DAMAGE_TEAR', 'CONCRETE_SEQ', 'SEQ_BASE=4', 'VERIF_SEQS=1', 'VERIF_MAXREC=4'], reach=['tear-none', 'tear-some', 'recompact-2', 'recompact-3', 'done'],
    bounds='1 sequence x 1..4 records whose dependency lists name the same, so far unknown, file twice (two spellings of one path); torn at every byte offset, 4 choices of appended record, recompaction never / in session 2 / in session 3'))
CHECKS['C09']['level_text'] += ' One sequence records dependency lists that name one not yet known file twice (a depfile spelling a path in two ways): later sessions must load the log cleanly and return the list as recorded.'

CHECKS['C14']['jobs'].append(dict(name='nested', harness='c14_nested.cc', units=['util'] + ['string_piece_util', 'edit_distance'], stubs=False, reach=['backed-out-past-start', 'backed-out-to-start', 'partly-backed-out', 'nine-levels'], limits=dict(time=1200, max_paths=400000),
    quick=dict(defines=['VERIF_D=16'], bounds='0..16 real components with distinct names (the first may start with a dot), then 0..D+2 ".." components, one "." or empty component at one of four places, optional tail name, relative or absolute'),
    thorough=dict(defines=['VERIF_D=40'], bounds='the same with up to 40 nested components', limits=dict(time=3000, max_paths=3000000))))
CHECKS['C14']['level_text'] += ' A fourth job nests up to 16 (thorough: 40) distinctly named components and backs out of them with up to that many ".." components (plus two more), against the same reference.'

SCENARIOS += ['restat_and_plain_inputs', 'pool_depth2_wide', 'dyndep_clean_root']     # 45 .. 47
CHECKS['C01']['jobs'] += _hist_jobs('CHECK_C01', 2, 3, [45])
CHECKS['C03']['jobs'] += _hist_jobs('CHECK_C03', 2, 3, [45], reach=('built', 'minimality-checked'))
CHECKS['C01']['level_text'] += ' One shape gives a consumer two generated inputs, one from a plain and one from a restat statement, so that the restat pruning walk runs while a really rewritten input sits next to the untouched one (both completion orders).'
CHECKS['C06']['jobs'] += _mode_jobs('MODE_SCHED', [46], extra=['WITH_JOBSERVER'], suffix='_tokens', reach=('tokens-success', 'tokens-failure', 'parallel'), bounds='three statements of a depth-2 pool ready at once; -j in {1,2,3} with a jobserver pool of 0..2 explicit tokens plus the implicit one (the token count, not -j, limits the jobs), any command start may fail')
CHECKS['C06']['jobs'] += _mode_jobs('MODE_SCHED', [46], reach=('built', 'parallel'), bounds='three statements of a depth-2 pool ready at once; -j in {1,2,3}, every completion order')
CHECKS['C06']['level_text'] += ' One shape has more ready statements in a depth-2 pool than the pool admits, with -j below, at and above the depth and with a jobserver whose token count exceeds -j.'
CHECKS['C11']['jobs'] += _hist_jobs('CHECK_C11', 2, 3, [47], reach=('built', 'incremental-build'))
CHECKS['C11']['level_text'] += ' One shape lets the statement bound to a rebuilt dyndep file stay up to date while the producer of its discovered input is clean but waits for a dirty order-only input: that input must still be brought up to date, as with the information inlined.'

SCENARIOS += ['wide2', 'restat_behind_alias']     # 48, 49
_CODES = 'one invocation from the empty tree; any subset of commands fails, the first with an exit code from {1,2,3,126,127,128,129,131,137,139,143,255} (what shells and wrapper scripts hand on, without the interrupt code 130), later ones with 1..3; -k in {1,0}; -j in {1,2}'
CHECKS['C05']['jobs'] += _mode_jobs('MODE_FAIL', [48], extra=['WIDE_EXIT_CODES'], suffix='_codes', reach=('failed', 'retried', 'all-succeeded'), bounds=_CODES)
CHECKS['C05']['jobs'] += _real_runner(_mode_jobs('MODE_FAIL', [48], extra=['WIDE_EXIT_CODES'], suffix='_codes', reach=('failed', 'retried', 'all-succeeded'), bounds=_CODES.replace('{1,2,3,126,127,128,129,131,137,139,143,255}', '{2,127,129,143,255}')))
CHECKS['C05']['level_text'] += ' Two jobs on a two-wide shape draw the exit code of each failing command from the codes shells and wrapper scripts hand on (126, 127, 128 + SIGHUP/SIGQUIT/SIGKILL/SIGSEGV/SIGTERM, 128, 255) instead of 1..3: each is an ordinary failure whose code ninja must return, after waiting for and recording what was running.'
for _c, _r in (('C01', ('built', 'incremental-build')), ('C02', ('built', 'converged-checked')), ('C03', ('built', 'minimality-checked'))):
    _js = _hist_jobs('CHECK_' + _c, 3, 3, [49], extra_defs=['SINGLE_EDIT', 'DOUBLE_EDIT', 'NO_DELETE'], reach=_r)
    for _j in _js: _j['quick'] = dict(_j['quick'], bounds=_j['quick']['bounds'].replace('any subset of sources edited', 'at most one source edited (by 1 or 2: a restat generator reproduces its output for some edits)').replace(', at most one output/depfile deleted', ''))
    CHECKS[_c]['jobs'] += _js
CHECKS['C03']['level_text'] += ' One shape puts a phony alias between a restat output and its consumer and runs three invocations with target subsets, so that the consumer can be stale for an earlier reason when the restat pruning walk passes through the alias.'

CHECKS['C06']['jobs'] += _real_runner(_mode_jobs('MODE_SCHED', [2], extra=['WITH_JOBSERVER', 'STAT_MAY_FAIL'], suffix='_tokens_statfail', reach=('tokens-success', 'tokens-failure', 'stat-failed'), bounds='jobserver FIFO holding 0..2 tokens; one stat() call after the first command start may fail with an I/O error (the bookkeeping of a finished command fails while another finished command has not been reaped yet)'))
CHECKS['C06']['level_text'] += ' One *_procs job lets the bookkeeping of a finished command fail (stat() I/O error) while further commands have finished but are not yet reaped: every token read from the FIFO must still be written back.'

CHECKS['C20']['jobs'] += _mode_jobs('MODE_STATUS', [2], extra=['STAT_MAY_FAIL'], suffix='_statfail', reach=('success', 'failure', 'output-shown', 'bookkeeping-failed'), bounds='one invocation from the empty tree, -j in {1,2,3}, each command prints or not, every completion order; one stat() call after the first command start may fail with an I/O error (the bookkeeping after a successful command fails and the build is abandoned)')
CHECKS['C20']['level_text'] += ' One job lets the bookkeeping after a successful command fail (stat() I/O error on a restat / deps output): what that command printed must still be shown exactly once, and the counters stay ordered.'

CHECKS['C07']['jobs'] += _mode_jobs('MODE_CRASH', [27], suffix='_crash', reach=('died', 'survived', 'recovered'), quick_defs=['VERIF_MAX_EVENTS=40'], bounds='statements with response files: build from the empty tree killed after persistence event 0..40, -j in {1,2}, every completion order; recovery build (no response file may be left behind); no-op build')
CHECKS['C07']['level_text'] += ' One crash job uses statements with response files: after the recovery build no response file of a finished command is left (the order of response-file removal and log append in FinishCommand).'

SCENARIOS += ['dyndep_restat_producer']     # 50
CHECKS['C11']['jobs'] += _hist_jobs('CHECK_C11', 2, 3, [50], extra_defs=['CHECK_C03'], reach=('built', 'incremental-build', 'minimality-checked'))
CHECKS['C11']['level_text'] += ' One shape produces the dyndep file with a restat rule that leaves it untouched and names it as an implicit input of the statement bound to it: the build must run exactly the commands the manifest with the information written in runs (the minimality reference of C03), not more.'

SCENARIOS += ['cycle_by_dyndep_consumer_first', 'dyndep_consumer_first', 'restat_two_outputs']     # 51 .. 53
CHECKS['C17']['jobs'] += _mode_jobs('MODE_CYCLE', [51], reach=('dyndep-cycle',), bounds='the same cycle closed by a dyndep file built during the build, with the statement bound to the dyndep file written in the manifest before the statement that produces the file; -j in {1,2}, every completion order')
CHECKS['C11']['jobs'] += _hist_jobs('CHECK_C11', 2, 3, [52], extra_defs=['SINGLE_EDIT'], reach=('built', 'incremental-build'))
CHECKS['C11']['jobs'][-1]['quick']['bounds'] = CHECKS['C11']['jobs'][-1]['quick']['bounds'].replace('any subset of sources edited', 'at most one source edited') + '; every statement is written in the manifest before the statements producing its inputs (the dyndep file included)'
CHECKS['C11']['level_text'] += ' One shape writes every consumer before its producers in the manifest (the statement bound to a dyndep file before the statement producing that file).'
CHECKS['C03']['jobs'] += _hist_jobs('CHECK_C03', 2, 3, [53], reach=('built', 'minimality-checked'))
CHECKS['C01']['jobs'] += _hist_jobs('CHECK_C01', 2, 3, [53])
CHECKS['C03']['level_text'] += ' One shape has a restat statement with two outputs of which an edit rewrites only one: exactly the consumers of the rewritten output run.'

SCENARIOS += ['restat_deps_lazy_depfile']     # 54
CHECKS['C02']['jobs'] += _hist_jobs('CHECK_C02', 2, 3, [54], extra_defs=['DELETE_LOGS'], reach=('built', 'converged-checked'))
CHECKS['C02']['jobs'][-1]['quick']['bounds'] += '; before each later invocation .ninja_deps or .ninja_log may also be deleted (a build directory restored from a cache of outputs); the restat + deps=gcc command is a write-if-changed wrapper that writes no depfile when it leaves its output untouched'
CHECKS['C02']['level_text'] += ' One shape combines restat with deps=gcc, a command that writes its depfile only when it rewrites its output, and deleted logs: the build after a successful one must still have nothing to do.'

CHECKS['C10']['jobs'].append(dict(name='showincludes_roundtrip', harness='c10_clparser.cc', units=['clparser'] + _U, reach=['one-include', 'source-echoed'],
    quick=dict(defines=['VERIF_NAMES=1', 'VERIF_LEN=3'], bounds='/showIncludes output with 1 reported file whose name is any 1..3 bytes (no CR/LF, not starting with a blank); source name echoed or not, LF/CRLF, 0..2 blanks of nesting indentation, another line of compiler output before / after / absent, English or localised prefix'),
    thorough=dict(defines=['VERIF_NAMES=2', 'VERIF_LEN=4'], bounds='the same with 1..2 reported files of 1..4 bytes', limits=dict(time=3000, max_paths=3000000))))
CHECKS['C10']['level_text'] += ' A kernel job runs the real CLParser::Parse on /showIncludes output built from symbolic file names and a symbolic layout: exactly the reported files (after the path normalisation ninja applies) must come back as dependencies, and only the notes and the echoed source name may be removed from the output.'

SCENARIOS += ['shared_rspfile']     # 55
CHECKS['C16']['jobs'] += _mode_jobs('MODE_SCHED', [55], extra=['WITH_FAILURES'], suffix='_rspfile_fail', reach=('built', 'rspfile-kept'), bounds='two statements that run one after the other name the same response file; any subset of commands fails, -k in {1,2}, -j in {1,2,3}: content checked at each command start, removed after success, kept (with the failed command\'s content) after failure')
CHECKS['C16']['level_text'] += ' One shape lets two consecutive statements share one response-file path, with failures: the file of the failed command must still be there when ninja exits.'

SCENARIOS += ['dead_outputs_dyndep']     # 56
CHECKS['C18']['jobs'] += [dict(j, name='dead_outputs_dyndep_cleandead') for j in _tool_jobs([56], mode='MODE_CLEANDEAD', reach=('cleandead', 'recompacted'), bounds='full build of a dyndep shape (an implicit output and an input known only through the dyndep file, both recorded in the build log), then one statement removed from the manifest; optionally -t recompact and/or a build first; ninja -n -t cleandead, ninja -t cleandead, build')]
CHECKS['C18']['level_text'] += ' A second cleandead job uses a dyndep shape: files that are in the graph only through a dyndep file (an implicit output it declares) are recorded in the build log and must survive cleandead.'

CHECKS['C05']['jobs'].append(dict(name='exit_status', harness='c05_exitstatus.cc', units=list(_U), reach=['failed', 'succeeded', 'interrupted', 'killed'],
    bounds='every 16-bit wait status that waitpid() can report for a terminated child (exit code 0..255; signal 1..127 with or without core dump) through the real ParseExitStatus'))
CHECKS['C05']['level_text'] += ' A kernel job passes every wait status (symbolic 16-bit value) through the real ParseExitStatus: an exit code comes back unchanged, only SIGINT/SIGTERM/SIGHUP deaths count as interrupts, any other signal gives a non-zero failure status.'
for _j in CHECKS['C05']['jobs']:
    if _j['name'] == 'wide2_codes_procs': _j['thorough_only'] = True      # (expensive; the exit_status kernel covers ParseExitStatus on every value in the quick tier)

_DIRTY = dict(name='dirty_kernel', harness='c01_dirty.cc', units=['graph', 'state', 'eval_env', 'build_log', 'debug_flags', 'dyndep', 'dyndep_parser', 'parser', 'lexer', 'depfile_parser', 'deps_log', 'disk_interface', 'version'] + _U, hooks=['const_hash'],
    reach=['must-run', 'up-to-date', 'equal-stamps-up-to-date'],
    bounds='one statement with two explicit, one implicit and one order-only source and one output; every file missing or stamped 1..4 in any order, ties included; restat and generator flags; log record absent / present with any recorded mtime 0..4 and the current or another command')
CHECKS['C01']['jobs'].append(dict(_DIRTY)); CHECKS['C03']['jobs'].append(dict(_DIRTY))
_DIRTY_P = dict(_DIRTY, name='dirty_kernel_phony', defines=['PHONY_ALIAS'], bounds=_DIRTY['bounds'] + '; the two explicit sources reach the statement through a phony alias without a file of its own (phony mtime pass-through)')
CHECKS['C01']['jobs'].append(dict(_DIRTY_P)); CHECKS['C03']['jobs'].append(dict(_DIRTY_P))
_DIRTY_D = dict(_DIRTY, name='dirty_kernel_deps', defines=['DEPS_LOG'], reach=['must-run', 'up-to-date', 'equal-stamps-up-to-date'], bounds=_DIRTY['bounds'] + '; deps = gcc with a header known only from the deps log: record absent / present with any recorded mtime 0..4, the header missing or stamped 1..4')
CHECKS['C10']['jobs'].append(dict(_DIRTY_D)); CHECKS['C01']['jobs'].append(dict(_DIRTY_D))
CHECKS['C10']['level_text'] += ' A kernel job decides the up-to-date rule of one deps=gcc statement for every combination of time stamps (ties included) of its declared inputs, its output, a header known only from the deps log, the deps record and the build-log record: the recorded header must count exactly like a declared implicit input whenever the record exists and is not older than the output, and the statement must run otherwise.'
_DK = ' A kernel job decides the up-to-date rule of a single statement (DependencyScan::RecomputeDirty with the real build log) for every combination of time stamps - ties included, which the strictly increasing clock of the history jobs never produces -, restat / generator flags and log states, against the rule stated from scratch.'
CHECKS['C01']['level_text'] += _DK; CHECKS['C03']['level_text'] += _DK

# ---- quick-tier budget: the heaviest history jobs whose seeded changes are also caught by a cheaper quick job run in the thorough tier only
for _p, _names in (('C01', ('generated_header_deps_midrun', 'dyndep_single_edit', 'chain_midrun')), ('C10', ('restat_with_deps_h3',)), ('C03', ('restat_with_deps_h3',))):
    for _j in CHECKS[_p]['jobs']:
        if _j['name'] in _names: _j['thorough_only'] = True

# the three-wide process-layer job of C05 does not fit its time limit when the machine is shared: the quick tier runs the same harness on the two-wide shape
CHECKS['C05']['jobs'] += _real_runner(_mode_jobs('MODE_FAIL', [48], reach=('failed', 'retried', 'all-succeeded'), bounds='one invocation from the empty tree; any subset of commands fails with exit code 1..3 or dies by SIGSEGV/SIGKILL, touched or not; -k in {1,2,0}; -j in {1,2,3}'))
for _j in CHECKS['C05']['jobs']:
    if _j['name'] in ('wide3_procs', 'wide2_procs'): _j['thorough_only'] = True; _j['limits'] = dict(_j.get('limits', {}), time=3400)      # (neither fits the quick tier's time limit on a shared machine; ParseExitStatus is covered by exit_status, the failure paths of the process layer by C06 wide3_tokens_fail_procs and C20 pools_fail_procs)

# ---- quick-tier budget (vp check stops a quick command after 900 s; every job costs about a minute of IR / native build and cross-validation on top of
# its exploration): per property the quick tier keeps the jobs listed here - chosen so that every seeded change stays caught in the quick tier, by this
# property's check or by the one named in seeded/<id>/meta.json - and everything else of that property runs in the thorough tier.
_QUICK_KEEP = {
    'C01': ('diamond_order_only', 'generated_header_deps', 'restat_order_only_newer', 'restat_and_plain_inputs', 'restat_two_outputs', 'restat_then_deps', 'dirty_kernel', 'dirty_kernel_phony', 'dirty_kernel_deps'),
    'C03': ('restat_order_only_newer', 'phony_mixed_restat', 'restat_behind_alias', 'restat_two_outputs', 'dyndep_logtools', 'restat_phony', 'dirty_kernel', 'dirty_kernel_phony'),
    'C05': ('chain', 'wide3', 'wide3_tokens', 'depfile_plain_built', 'exit_status'),
    'C10': ('generated_header_deps', 'depfile_noncanonical_path', 'include_switch', 'restat_with_deps', 'deps_msvc', 'showincludes_roundtrip', 'dirty_kernel_deps'),
    'C11': ('dyndep_single_edit', 'dyndep_two_files_bad', 'dyndep_bad', 'dyndep_checked_in_logtools', 'dyndep_input_also_order_only', 'dyndep_clean_root', 'dyndep_restat_producer', 'dyndep_consumer_first'),
    'C19': ('diamond_order_only', 'independent_depfile_edges_leftovers', 'json', 'tools_mix_tools', 'diamond_order_only_tools'),
    'C20': ('pools', 'multi_out_phony', 'dyndep_built_counters', 'phony_in_console_pool', 'multi_out_phony_long_procs', 'diamond_order_only_statfail', 'pools_custom_format'),
}
for _p, _keep in _QUICK_KEEP.items():
    for _j in CHECKS[_p]['jobs']:
        if _j['name'] not in _keep: _j['thorough_only'] = True
for _p, _names in (('C06', ('wide3_load_procs', 'dyndep_input_in_pool_fail', 'pool_depth2_wide', 'diamond_order_only_tokens_statfail')), ('C17', ('cycle_explicit_main',))):
    for _j in CHECKS[_p]['jobs']:
        if _j['name'] in _names: _j['thorough_only'] = True

# ---- the thorough tier as it is actually run: every job of the quick tier at the same bounds, plus the thorough_only jobs (heavier shapes, built-then-perturbed
# states, all-subsets edits), plus deeper bounds for the byte-level kernels (C08 C09 C13 C14 C15 C16 C19/json).  Three-invocation histories of *every* pipeline shape
# (the first version's thorough tier) take many hours on 16 cores and were never run to completion, so they are not what `--tier thorough` means any more; the
# three-invocation jobs that are run are the *_h3 jobs and include_switch.
for _p in CHECKS:
    for _j in CHECKS[_p]['jobs']:
        if _j['harness'] in ('pipeline.cc', 'tools.cc') and 'quick' in _j and not _j.get('keep_thorough'):
            _lim = dict(_j['quick'].get('limits', {})); _lim.setdefault('time', 3000); _lim.setdefault('max_paths', 3000000)
            _j['thorough'] = dict(_j['quick'], limits=_lim)

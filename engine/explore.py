#!/usr/bin/env python3-vt
"""explore: shard the path-wise symbolic exploration of one linked module over worker processes.

The work list holds decision prefixes (plain Python values).  Workers are forked after the module is
parsed; each takes one prefix, explores depth-first below it for a bounded number of paths and hands
the unexplored siblings back.  The exploration is complete iff the work list drains; a budget that
runs out first makes the job inconclusive, never successful.
"""
import os, sys, time, collections, multiprocessing as mp, traceback
import symex

_engine = None; _entry = None

def _init(ll, entry, opts):
    global _engine, _entry
    _engine = symex.Engine(ll, **opts); _entry = entry

def _work(arg):
    prefix, max_paths, deadline = arg
    try:
        return ('ok',) + symex.worker_explore(_engine, _entry, prefix, max_paths, deadline)
    except NotImplementedError as e:
        return ('engine-error', 'unsupported construct: %s\n%s' % (e, traceback.format_exc()[-1500:]), prefix)
    except Exception as e:
        return ('engine-error', '%s: %s\n%s' % (type(e).__name__, e, traceback.format_exc()[-3000:]), prefix)

def explore(ll, entry='harness_main', workers=16, max_paths=200000, time_limit=600, chunk=24, engine_opts=None, seed=0, stop_on_inconclusive=False):
    t0 = time.time(); deadline = t0 + time_limit
    engine_opts = engine_opts or {}
    ctx = mp.get_context('fork')
    out = dict(paths=0, ends=collections.Counter(), violations=[], reached=collections.Counter(), asserts=collections.Counter(),
               steps=0, decisions=0, solver_calls=0, solver_time=0.0, samples=[], vectors=[], max_steps_path=0, engine_errors=[],
               inconclusive=[], pending=0)
    pool = ctx.Pool(workers, initializer=_init, initargs=(ll, entry, engine_opts))
    try:
        queue = collections.deque([[]]); inflight = []
        import random
        rnd = random.Random(seed)
        def submit():
            while queue and len(inflight) < workers * 2 and out['paths'] + len(inflight) * chunk < max_paths + chunk * workers:
                p = queue.pop() if seed == 0 else queue.pop() if rnd.random() < .5 else queue.popleft()
                inflight.append(pool.apply_async(_work, ((p, min(chunk, 4 if len(queue) < workers else chunk), deadline),)))
        submit()
        while inflight:
            done = [r for r in inflight if r.ready()]
            if not done:
                time.sleep(0.005)
                if time.time() > deadline + 120: break
                continue
            for r in done:
                inflight.remove(r); res = r.get()
                if res[0] == 'engine-error':
                    out['engine_errors'].append(res[1]); continue
                _, results, left, st = res
                queue.extend(left)
                out['solver_calls'] += st.get('solver_calls', 0); out['solver_time'] += st.get('solver_time', 0.0)
                for pr in results:
                    out['paths'] += 1; out['ends'][pr['end']] += 1; out['steps'] += pr['steps']; out['decisions'] += pr['new_decisions']
                    out['max_steps_path'] = max(out['max_steps_path'], pr['steps'])
                    for l in pr['reached']: out['reached'][l] += 1
                    for a, k in pr['asserts'].items(): out['asserts'][a] += k
                    out['violations'].extend(pr['violations'])
                    if pr['end'] == 'inconclusive': out['inconclusive'].append(pr['detail']); out.setdefault('inconclusive_vectors', []).append(pr.get('vector', []))
                    if 'vector' in pr and pr['end'] != 'inconclusive':
                        if len(out['samples']) < 6 or (pr['violations'] and len(out['samples']) < 12):
                            out['samples'].append(dict(inputs=pr['vector'], observed=pr.get('obs', [])[:40], notes=pr.get('notes', [])[:12], end=pr['end'], stdout=pr.get('stdout', '')[:200]))
                        if len(out['vectors']) < 400 and (out['paths'] % 7 == 1 or len(out['vectors']) < 40):
                            out['vectors'].append(dict(vector=pr['vector'], obs=pr.get('obs', []), asserts_failed=[v['msg'] for v in pr['violations']], reached=pr['reached']))
            if out['engine_errors'] or time.time() > deadline or out['paths'] >= max_paths: break
            if stop_on_inconclusive and out['inconclusive']: break
            submit()
        out['pending'] = len(queue) + len(inflight)
    finally:
        pool.terminate(); pool.join()
    out['wall'] = time.time() - t0
    out['complete'] = out['pending'] == 0 and not out['engine_errors'] and out['ends']['inconclusive'] == 0
    return out

if __name__ == '__main__':
    r = explore(sys.argv[1], time_limit=float(sys.argv[2]) if len(sys.argv) > 2 else 600)
    r.pop('vectors'); r.pop('samples')
    print(r)

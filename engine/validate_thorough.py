#!/usr/bin/env python3-vt
"""validate_thorough: run every job that the thorough tier adds to the quick tier (thorough_only jobs and jobs whose thorough bounds are deeper) once on the
current tree and write seeded/THOROUGH_DELTA.json: the thorough tier is only claimed for what finished here with exit 0 (or only known findings)."""
import os, sys, json, subprocess, time
HERE = os.path.dirname(os.path.abspath(__file__)); VERIF = os.path.dirname(HERE); sys.path.insert(0, HERE)
import catalog
out = {}; only = sys.argv[1:]
for p in sorted(catalog.CHECKS):
    if only and p not in only: continue
    for j in catalog.CHECKS[p]['jobs']:
        delta = j.get('thorough_only') or (j.get('thorough', {}).get('defines') != j.get('quick', {}).get('defines'))
        if not delta: continue
        t0 = time.time()
        r = subprocess.run('timeout 4000 python3-vt %s/check.py %s --tier thorough --job %s --no-evidence' % (HERE, p, j['name']), shell=True, stdout=subprocess.PIPE, stderr=subprocess.STDOUT, text=True)
        lines = [l for l in r.stdout.splitlines() if l.startswith(('VIOLATION', 'KNOWN-FINDING', '    ')) or ' job ' in l]
        out['%s/%s' % (p, j['name'])] = dict(rc=r.returncode, secs=round(time.time() - t0), lines=lines[:12])
        print(p, j['name'], r.returncode, round(time.time() - t0), flush=True)
        json.dump(out, open(os.path.join(VERIF, 'seeded', 'THOROUGH_DELTA.json'), 'w'), indent=1)

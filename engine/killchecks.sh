#!/bin/bash
# kill all running check/explore processes (pattern kept out of the caller's command line)
for p in $(pgrep -f "engine/check.py|engine/exp.py"); do kill -9 $p 2>/dev/null; done

#!/usr/bin/env python3
"""setdet.py <id> <detected_job(s)> <text> : record which job catches a seeded change"""
import sys, json
p = '/verif/seeded/%s/meta.json' % sys.argv[1]; m = json.load(open(p))
m['detected_job'] = sys.argv[2]; m['detected_by'] = sys.argv[3]
m['ran'] = 'engine/trymutwt.sh seeded/%s/patch.diff %s (scratch worktree, VERIF_REPO): VIOLATION line with native replay; the same job exits 0 on the unchanged tree' % (sys.argv[1], ' / '.join(sys.argv[2].split(',')))
json.dump(m, open(p, 'w'), indent=1)

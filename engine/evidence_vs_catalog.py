#!/usr/bin/env python3-vt
"""evidence_vs_catalog.py: for every property compare the quick-tier job list of engine/catalog.py with the job entries of evidence/<id>.json"""
import sys, os, json
sys.path.insert(0, os.path.dirname(os.path.abspath(__file__)))
import catalog
for p in sorted(catalog.CHECKS):
    want = [j['name'] for j in catalog.CHECKS[p]['jobs'] if not j.get('thorough_only')]
    try: e = json.load(open('/verif/evidence/%s.json' % p))
    except Exception as ex: print(p, 'NO EVIDENCE', ex); continue
    have = [j['job'] for j in e['coverage']['jobs']]
    missing = [x for x in want if x not in have]; extra = [x for x in have if x not in want]
    bad = [j['job'] for j in e['coverage']['jobs'] if j.get('status') != 'ok']
    print(p, 'jobs', len(have), 'exit', e['coverage'].get('exit_code'), 'missing', missing, 'extra', extra, 'not-ok', bad)

#!/usr/bin/env python3-vt
"""regenerate /verif/MANIFEST.json from engine/catalog.py (checks) and the fixed property list (not_applicable for the rest)"""
import json, os, sys
HERE = os.path.dirname(os.path.abspath(__file__)); VERIF = os.path.dirname(HERE); sys.path.insert(0, HERE)
import catalog
props = [json.loads(l) for l in open(os.path.join(VERIF, 'properties.jsonl'))]
checks = []; na = []
for p in props:
    c = catalog.CHECKS.get(p['id'])
    if c is None or c.get('not_applicable'):
        na.append(dict(property_id=p['id'], reason=(c or {}).get('not_applicable', 'check not built yet (framework under construction)'))); continue
    checks.append(dict(property_id=p['id'],
        quick_cmd='python3-vt engine/check.py %s --tier quick' % p['id'],
        thorough_cmd='python3-vt engine/check.py %s --tier thorough' % p['id'],
        evidence_file='/verif/evidence/%s.json' % p['id'],
        replay_cmd_template='python3-vt engine/check.py --replay {path}',
        engine='symex',
        level_claimed=dict(category='model_checking', text=c['level_text'], design_ref=c.get('design_ref', 'DESIGN.md section 3, ' + p['id'])),
        level_note=c['level_note'],
        technique=c.get('technique', 'bounded symbolic execution of the clang-14 LLVM IR of the real ninja sources with z3 deciding every branch and assertion; counterexamples replayed natively')))
m = dict(version=1, setup_cmd='python3-vt engine/selftest.py',
    hooks=dict(guard='NINJA_VERIF', enable='no source hooks are needed: every check compiles /repo/src itself to LLVM IR (clang++-14) and, for replay, to native objects (g++); private state is read through a harness-only access macro',
               baseline_off_cmd='cmake --build /repo/_build && ctest --test-dir /repo/_build -j8 --timeout 900', source_commits=[], add_only=True),
    engines=[dict(name='symex', path='engine/symex.py', serves_properties=[c['property_id'] for c in checks],
                  kind_free_text='path-wise symbolic executor for LLVM-14 IR (concrete heap, symbolic scalars, z3 5.1 decides every branch/assertion), sharded over 16 processes; engine/irbuild.py regenerates the IR from /repo on every run; engine/check.py replays counterexamples against the g++-compiled real sources')],
    checks=checks, notes=catalog.NOTES, not_applicable=na)
json.dump(m, open(os.path.join(VERIF, 'MANIFEST.json'), 'w'), indent=1)
print('%d checks, %d not applicable' % (len(checks), len(na)))

#!/bin/bash
# usage: trymut.sh <patch.diff> <property> [extra check.py args]   -- applies a seeded change to /repo, runs the check, restores /repo
patch=$1; prop=$2; shift 2
git -C /repo apply "$patch" 2>/dev/null || git -C /repo apply --3way "$patch" || { echo "patch does not apply"; git -C /repo reset -q --hard HEAD; exit 9; }
timeout ${TRYMUT_TIMEOUT:-900} python3-vt /verif/engine/check.py $prop --no-evidence "$@" 2>&1 | grep -E "VIOLATION|KNOWN|exit|assertion:|counterexample|job |disagree|not reprod|internal|error" | cut -c1-400
git -C /repo reset -q --hard HEAD
git -C /repo status --short | grep -v _build

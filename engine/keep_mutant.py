#!/usr/bin/env python3
"""keep_mutant.py <prop> <A|B> <confirm-json> : copy a confirmed seeded change into /verif/seeded/<prop>-<variant>/ with meta.json"""
import sys, os, json, shutil, glob
prop, var, conf = sys.argv[1], sys.argv[2], json.loads(sys.argv[3])
import os as _os
src = '%s/%s/_deliver/%s' % (_os.environ.get('MUT_BASE', '/tmp/mut'), prop, var); dst = '/verif/seeded/%s-%s' % (prop, var)
os.makedirs(dst, exist_ok=True)
for f in glob.glob(src + '/*'):
    if os.path.isfile(f) and os.path.getsize(f) < 200000: shutil.copy(f, dst)
readme = open(src + '/README.md').read() if os.path.exists(src + '/README.md') else ''
meta = dict(property=prop, variant=var, breaks=prop, wave=int(_os.environ.get('MUT_WAVE', '0')) or None, needs_to_manifest=readme[:1500],
            confirmed=dict(how='engine/confirm_mutant.sh in a scratch worktree: patch applies, ninja builds, whole ninja_test passes with the patch, demo run.sh fails with the patch and passes without', result=conf),
            detected_by=None)
old = os.path.join(dst, 'meta.json')
if os.path.exists(old):
    try: meta['detected_by'] = json.load(open(old)).get('detected_by')
    except Exception: pass
json.dump(meta, open(old, 'w'), indent=1)

#!/usr/bin/env python3
"""ir2c: translate an LLVM-14 (typed pointer) textual IR module into C for CBMC.

Prototype written during the design phase to measure feasibility.
Usage: ir2c.py in.ll out.c [--skip sym,sym,...]
Functions listed in --skip (or having no body) are emitted as extern declarations;
their definitions come from hand-written C models.
"""
import re, sys, collections

TOK = re.compile(r'''
   (?P<str>c"(?:[^"\\]|\\[0-9A-Fa-f]{2}|\\\\)*")
 | (?P<id>[%@](?:"(?:[^"\\]|\\.)*"|[-a-zA-Z$._0-9]+))
 | (?P<qstr>"(?:[^"\\]|\\.)*")
 | (?P<meta>![-a-zA-Z$._0-9]*(?:\([^)]*\))?)
 | (?P<attrg>\#\d+)
 | (?P<num>-?(?:0x[KLMHR]?[0-9A-Fa-f]+|\d+\.\d*(?:[eE][-+]?\d+)?|\d+))
 | (?P<dots>\.\.\.)
 | (?P<word>[a-zA-Z_][a-zA-Z_0-9.]*)
 | (?P<punct>[()\[\]{}<>,=*:])
 | (?P<ws>\s+)
 | (?P<cmt>;.*)
''', re.X)

def tokenize(line):
    out = []
    pos = 0
    n = len(line)
    while pos < n:
        m = TOK.match(line, pos)
        if not m:
            raise SyntaxError('cannot tokenize at %r' % line[pos:pos+40])
        pos = m.end()
        k = m.lastgroup
        if k in ('ws', 'cmt'):
            continue
        out.append((k, m.group()))
    return out

PARAM_ATTRS = {'noundef','nonnull','zeroext','signext','inreg','noalias','nocapture','readonly','writeonly',
  'readnone','returned','immarg','nofree','nest','swiftself','swifterror','noreturn','nounwind','inalloca'}
PARAM_ATTRS_ARG = {'align','dereferenceable','dereferenceable_or_null','byval','sret','byref','preallocated','elementtype'}
FN_PREFIX_WORDS = {'dso_local','dso_preemptable','internal','private','linkonce_odr','linkonce','weak','weak_odr','external','available_externally',
  'hidden','protected','default','unnamed_addr','local_unnamed_addr','fastcc','ccc','coldcc','tail','musttail','notail','common','extern_weak','appending','thread_local'}

class P:
    """token cursor"""
    def __init__(s, toks): s.t = toks; s.i = 0
    def peek(s, k=0): return s.t[s.i+k] if s.i+k < len(s.t) else ('eof','')
    def next(s): x = s.peek(); s.i += 1; return x
    def accept(s, v):
        if s.peek()[1] == v: s.i += 1; return True
        return False
    def expect(s, v):
        x = s.next()
        if x[1] != v: raise SyntaxError('expected %r got %r in %r' % (v, x, s.t))
    def eof(s): return s.i >= len(s.t)

def parse_type(p):
    k, v = p.next()
    if k == 'word':
        if v[0] == 'i' and v[1:].isdigit(): t = ('int', int(v[1:]))
        elif v in ('float','double','void','label','metadata','x86_fp80','half','token'): t = (v,)
        elif v == 'opaque': t = ('opaque',)
        else: raise SyntaxError('type? %r' % v)
    elif k == 'id' and v[0] == '%': t = ('struct', v)
    elif v == '[':
        n = int(p.next()[1]); p.expect('x'); e = parse_type(p); p.expect(']'); t = ('array', n, e)
    elif v == '{':
        fs = []
        if not p.accept('}'):
            while True:
                fs.append(parse_type(p))
                if p.accept('}'): break
                p.expect(',')
        t = ('lstruct', tuple(fs), False)
    elif v == '<':
        if p.peek()[1] == '{':
            p.next(); fs = []
            if not p.accept('}'):
                while True:
                    fs.append(parse_type(p))
                    if p.accept('}'): break
                    p.expect(',')
            p.expect('>'); t = ('lstruct', tuple(fs), True)
        else:
            n = int(p.next()[1]); p.expect('x'); e = parse_type(p); p.expect('>'); t = ('vec', n, e)
    else:
        raise SyntaxError('type? %r %r' % (k, v))
    while True:
        if p.peek()[1] == '*': p.next(); t = ('ptr', t)
        elif p.peek()[1] == '(':
            # function type
            p.next(); ps = []; va = False
            if not p.accept(')'):
                while True:
                    if p.peek()[0] == 'dots': p.next(); va = True
                    else:
                        ps.append(parse_type(p)); skip_param_attrs(p)
                    if p.accept(')'): break
                    p.expect(',')
            t = ('func', t, tuple(ps), va)
        else: break
    return t

def skip_param_attrs(p):
    attrs = {}
    while True:
        k, v = p.peek()
        if k == 'word' and v in PARAM_ATTRS: p.next(); attrs[v] = True
        elif k == 'word' and v in PARAM_ATTRS_ARG:
            p.next()
            if p.accept('('):
                if v in ('byval','sret','byref','preallocated','elementtype'): attrs[v] = parse_type(p)
                else: attrs[v] = p.next()[1]
                p.expect(')')
            else:
                attrs[v] = p.next()[1]  # align 8
        else: break
    return attrs

CONSTEXPR_OPS = {'getelementptr','bitcast','ptrtoint','inttoptr','add','sub','mul','and','or','xor','shl','lshr','ashr','trunc','zext','sext','icmp','select','addrspacecast'}

def parse_value(p, ty):
    """value of known type -> AST"""
    k, v = p.next()
    if k == 'id': return ('ref', v)
    if k == 'num': return ('num', v, ty)
    if k == 'str': return ('cstr', v, ty)
    if k == 'word':
        if v in ('true','false'): return ('num', '1' if v == 'true' else '0', ty)
        if v == 'null': return ('null', ty)
        if v in ('undef','poison'): return ('undef', ty)
        if v == 'zeroinitializer': return ('zero', ty)
        if v in CONSTEXPR_OPS: return parse_constexpr(p, v, ty)
        if v == 'dso_local_equivalent': return parse_value(p, ty)
        raise SyntaxError('value? %r' % v)
    if v == '{' or (v == '<' and p.peek()[1] == '{'):
        if v == '<': p.next()
        items = []
        if not p.accept('}'):
            while True:
                t = parse_type(p); items.append((t, parse_value(p, t)))
                if p.accept('}'): break
                p.expect(',')
        if v == '<': p.expect('>')
        return ('agg', items, ty)
    if v == '[':
        items = []
        if not p.accept(']'):
            while True:
                t = parse_type(p); items.append((t, parse_value(p, t)))
                if p.accept(']'): break
                p.expect(',')
        return ('agg', items, ty)
    raise SyntaxError('value? %r %r' % (k, v))

def parse_tv(p):
    t = parse_type(p); skip_param_attrs(p); return t, parse_value(p, t)

def parse_constexpr(p, op, ty):
    if op == 'getelementptr':
        p.accept('inbounds'); p.expect('(')
        bt = parse_type(p); p.expect(',')
        ops = [parse_tv(p)]
        while p.accept(','):
            p.accept('inrange'); ops.append(parse_tv(p))
        p.expect(')')
        return ('gep', bt, ops, ty)
    if op in ('bitcast','ptrtoint','inttoptr','trunc','zext','sext','addrspacecast'):
        p.expect('('); st, sv = parse_tv(p); p.expect('to'); dt = parse_type(p); p.expect(')')
        return ('cast', op, st, sv, dt)
    if op in ('add','sub','mul','and','or','xor','shl','lshr','ashr'):
        while p.peek()[1] in ('nuw','nsw','exact'): p.next()
        p.expect('('); a = parse_tv(p); p.expect(','); b = parse_tv(p); p.expect(')')
        return ('bin', op, a[0], a[1], b[1])
    if op == 'icmp':
        pred = p.next()[1]; p.expect('('); a = parse_tv(p); p.expect(','); b = parse_tv(p); p.expect(')')
        return ('icmp', pred, a[0], a[1], b[1])
    if op == 'select':
        p.expect('('); c = parse_tv(p); p.expect(','); a = parse_tv(p); p.expect(','); b = parse_tv(p); p.expect(')')
        return ('select', c[1], a[0], a[1], b[1])
    raise SyntaxError(op)

# ---------------------------------------------------------------------------
class Module:
    def __init__(s):
        s.structs = collections.OrderedDict()   # %name -> ('lstruct', fields, packed) | ('opaque',)
        s.globals = collections.OrderedDict()   # @name -> dict(type, init, const, external)
        s.funcs = collections.OrderedDict()     # @name -> Func
        s.cnames = {}
        s.used_cnames = set()
        s.lit_structs = {}
        s.arr_types = {}
        s.fn_types = {}
        s.typedefs = []

class Func:
    pass

def cname(m, ident):
    if ident in m.cnames: return m.cnames[ident]
    raw = ident[1:]
    if raw.startswith('"'): raw = raw[1:-1]
    c = re.sub(r'[^A-Za-z0-9_]', '_', raw)
    if ident[0] == '@' and not raw.startswith('_Z') and not raw.startswith('__CPROVER') and not raw.startswith('nondet_') and not raw.startswith('ir2c_') and ((ident in m.funcs and m.funcs[ident].body is None) or (ident in m.globals and m.globals[ident]['external'])): c = 'ir_' + c
    if ident[0] == '%': c = 'T_' + c
    elif not re.match(r'[A-Za-z_]', c): c = 'g_' + c
    if ident[0] == '@' and raw.startswith('.'): c = 'g' + c
    base = c; k = 1
    while c in m.used_cnames or c in C_RESERVED:
        k += 1; c = '%s_%d' % (base, k)
    m.used_cnames.add(c); m.cnames[ident] = c
    return c

C_RESERVED = {'main','abort','printf','puts','putchar','strlen','memcmp','memcpy','memmove','memset','strerror','bcmp','free','malloc','int','char','long','short','unsigned','signed','float','double','void','if','else','for','while','do','switch','case','default','break','continue','return','goto','struct','union','enum','typedef','static','extern','const','volatile','register','auto','sizeof','inline','restrict','_Bool'}
KEEP_NAMES = {'abort','printf','puts','putchar','strlen','memcmp','strerror','bcmp','free','malloc','memchr','strtol','strtoll','strtoull','atoi','fopen','fclose','fread','fwrite','fflush','ftell','fseek','feof','ferror','setvbuf','fileno','fprintf','snprintf','sscanf','unlink','getenv','fputs','fputc','fgets','vfprintf','vsnprintf','exit','_exit','calloc','realloc','truncate','ftruncate','rename','stat','fstat','lstat','mkdir','open','close','read','write','isatty','ioctl','strcmp','strncmp','strchr','strrchr','strstr','strcpy','strncpy','memrchr','rawmemchr','strtoul','strtod','qsort','getcwd','chdir','time','clock_gettime','gettimeofday','getloadavg','sysconf','access','rmdir','remove','fputs','putc','getc','ungetc','stpcpy','strnlen','strdup','toupper','tolower','isalpha','isdigit','isspace','__errno_location','__cxa_atexit','__cxa_guard_acquire','__cxa_guard_release','__cxa_pure_virtual','__assert_fail','posix_spawn','kill','waitpid','pipe','dup2','fcntl','sigaction','sigprocmask','ppoll','poll','pselect','getpid','setsid','tcgetpgrp','sigemptyset','sigaddset','sigismember','sigpending','posix_spawn_file_actions_init','posix_spawnattr_init'}

def ctype(m, t):
    k = t[0]
    if k == 'int':
        n = t[1]
        if n == 1: return '_Bool'
        if n <= 8: return 'uint8_t'
        if n <= 16: return 'uint16_t'
        if n <= 32: return 'uint32_t'
        if n <= 64: return 'uint64_t'
        if n <= 128: return 'unsigned __int128'
        raise NotImplementedError(t)
    if k in ('float','double'): return k
    if k == 'x86_fp80': return 'long double'
    if k == 'void': return 'void'
    if k == 'ptr':
        e = t[1]
        if e[0] == 'func': return fn_typedef(m, e) + '*'
        if e[0] == 'void' or e == ('int',8): return 'uint8_t*' if e != ('void',) else 'void*'
        return ctype(m, e) + '*'
    if k == 'struct': return 'struct ' + cname(m, t[1])
    if k == 'lstruct':
        if t not in m.lit_structs:
            nm = 'LS_%d' % len(m.lit_structs)
            m.lit_structs[t] = nm
            m.structs_order_extra.append((nm, t))
        return 'struct ' + m.lit_structs[t]
    if k == 'array':
        if t not in m.arr_types:
            nm = 'AR_%d' % len(m.arr_types)
            m.arr_types[t] = nm
            m.structs_order_extra.append((nm, t))
        return m.arr_types[t]
    if k == 'func': return fn_typedef(m, t)
    if k == 'opaque': return 'void'
    if k == 'metadata' or k == 'label' or k == 'token': return 'void*'
    raise NotImplementedError(t)

def fn_typedef(m, t):
    if t not in m.fn_types:
        nm = 'FN_%d' % len(m.fn_types)
        m.fn_types[t] = nm
        ret = ctype(m, t[1])
        ps = [ctype(m, x) for x in t[2]]
        if t[3]: ps.append('...')
        if not ps: ps = ['void']
        m.structs_order_extra.append((nm, ('fntypedef', ret, ps)))
    return m.fn_types[t]

def is_int(t): return t[0] == 'int'
def is_ptr(t): return t[0] == 'ptr'

def mask(t, e):
    n = t[1]
    if n in (1, 8, 16, 32, 64, 128): return e
    return '((%s) & ((((%s)1) << %d) - 1))' % (e, ctype(None, t), n)

def signed_c(t):
    n = t[1]
    return {1:'int8_t',8:'int8_t',16:'int16_t',32:'int32_t',64:'int64_t',128:'__int128'}.get(n) or ('int32_t' if n < 32 else 'int64_t' if n < 64 else '__int128')

def sext_to(t, e):
    """expression e of int type t as a signed C value (sign-extended)"""
    n = t[1]
    if n in (8,16,32,64,128): return '((%s)(%s))' % (signed_c(t), e)
    if n == 1: return '((int8_t)-(int8_t)(%s))' % e
    w = 32 if n < 32 else 64 if n < 64 else 128
    sc = signed_c(t); uc = ctype(None, t)
    return '((%s)((%s)(%s) << %d) >> %d)' % (sc, uc, e, w - n, w - n)

# ---------------------------------------------------------------------------
def parse_module(text):
    m = Module(); m.structs_order_extra = []
    lines = text.split('\n')
    i = 0
    while i < len(lines):
        ln = lines[i]
        s = ln.strip()
        if not s or s.startswith(';') or s.startswith('source_filename') or s.startswith('target ') or s.startswith('attributes ') or s.startswith('!') or s.startswith('$') or s.startswith('module asm'):
            i += 1; continue
        if s.startswith('%') and ' = type ' in s:
            name, rest = s.split(' = type ', 1)
            p = P(tokenize(rest))
            m.structs[name.strip()] = parse_type(p)
            i += 1; continue
        if s.startswith('@'):
            parse_global(m, s); i += 1; continue
        if s.startswith('declare'):
            parse_fn_header(m, s, None); i += 1; continue
        if s.startswith('define'):
            body = []
            i += 1
            while lines[i].strip() != '}':
                body.append(lines[i]); i += 1
            parse_fn_header(m, s, body); i += 1; continue
        raise SyntaxError('top-level? ' + s[:80])
    return m

def parse_global(m, s):
    toks = tokenize(s)
    p = P(toks)
    name = p.next()[1]; p.expect('=')
    external = False; const = False
    while True:
        k, v = p.peek()
        if k == 'word' and v in FN_PREFIX_WORDS:
            if v in ('external','extern_weak'): external = True
            p.next()
            if v == 'thread_local' and p.accept('('):
                p.next(); p.expect(')')
        elif v == 'global': p.next(); break
        elif v == 'constant': p.next(); const = True; break
        elif v == 'alias' or v == 'ifunc':
            # alias: T, T* @target
            p.next(); t = parse_type(p); p.expect(','); tt, tv = parse_tv(p)
            m.globals[name] = dict(type=t, init=None, const=False, external=False, alias=tv)
            return
        else: raise SyntaxError('global? %r in %s' % (v, s[:100]))
    t = parse_type(p)
    init = None
    if not external and not p.eof() and p.peek()[1] != ',':
        init = parse_value(p, t)
    m.globals[name] = dict(type=t, init=init, const=const, external=external, alias=None)

def parse_fn_header(m, s, body):
    toks = tokenize(s)
    p = P(toks); p.next()
    while p.peek()[0] == 'word' and (p.peek()[1] in FN_PREFIX_WORDS or p.peek()[1] in PARAM_ATTRS or p.peek()[1] in PARAM_ATTRS_ARG):
        w = p.next()[1]
        if w in PARAM_ATTRS_ARG:
            if p.accept('('): p.next(); p.expect(')')
            else: p.next()
    ret = parse_type_noargs(p)
    name = p.next()[1]
    p.expect('(')
    params = []; va = False
    if not p.accept(')'):
        while True:
            if p.peek()[0] == 'dots': p.next(); va = True
            else:
                t = parse_type(p); a = skip_param_attrs(p)
                pn = None
                if p.peek()[0] == 'id': pn = p.next()[1]
                params.append((t, pn, a))
            if p.accept(')'): break
            p.expect(',')
    f = Func(); f.name = name; f.ret = ret; f.params = params; f.va = va; f.body = body
    f.noreturn = False
    m.funcs[name] = f

def parse_type_noargs(p):
    """return type in define/declare/call: must not swallow '(' of the argument list
    unless it is a function-pointer type (followed by '*')."""
    save = p.i
    t = parse_type(p)
    # if parse_type consumed an arg list as a function type, but next token is not '*'... it would have consumed '*'.
    if t[0] == 'func':
        # e.g. "i32 (i8*, ...) @printf(...)" in calls: the function type is explicit, fine: caller handles
        return t
    return t

# ---------------------------------------------------------------------------
class FnGen:
    def __init__(s, m, f):
        s.m = m; s.f = f; s.types = {}; s.out = []; s.decls = collections.OrderedDict(); s.allocas = []
        s.blocks = collections.OrderedDict()

    def local(s, ident):
        raw = ident[1:]
        if raw.startswith('"'): raw = raw[1:-1]
        return 'v_' + re.sub(r'[^A-Za-z0-9_]', '_', raw)

    def label(s, ident):
        raw = ident[1:] if ident[0] == '%' else ident
        if raw.startswith('"'): raw = raw[1:-1]
        return 'L_' + re.sub(r'[^A-Za-z0-9_]', '_', raw)

    def val(s, v, want=None):
        return cvalue(s.m, v, s)

def cvalue(m, v, fg=None):
    k = v[0]
    if k == 'ref':
        ident = v[1]
        if ident[0] == '%':
            return fg.local(ident)
        if ident in m.funcs: return '(&' + cname(m, ident) + ')' if False else cname(m, ident)
        g = m.globals.get(ident)
        if g is None: raise KeyError(ident)
        if g['type'][0] == 'array': return '(&' + cname(m, ident) + ')'
        return '(&' + cname(m, ident) + ')'
    if k == 'num':
        t = v[2]; lit = v[1]
        if t[0] == 'int':
            x = int(lit) if not lit.startswith('0x') else int(lit, 16)
            n = t[1]
            x &= (1 << n) - 1
            if n == 1: return str(x)
            if n <= 32: return '((%s)%dU)' % (ctype(m, t), x)
            if n <= 64: return '((%s)%dULL)' % (ctype(m, t), x)
            hi, lo = x >> 64, x & ((1 << 64) - 1)
            return '((((unsigned __int128)%dULL) << 64) | (unsigned __int128)%dULL)' % (hi, lo)
        if t[0] in ('float','double'):
            if lit.startswith('0x'):
                import struct
                bits = int(lit[2:], 16)
                d = struct.unpack('>d', struct.pack('>Q', bits))[0]
                return repr(d) if d == d and abs(d) != float('inf') else ('(1.0/0.0)' if d > 0 else '(-1.0/0.0)' if d < 0 else '(0.0/0.0)')
            return lit
        raise NotImplementedError(v)
    if k == 'null': return '((%s)0)' % ctype(m, v[1])
    if k == 'undef' or k == 'zero':
        t = v[1]
        if t[0] in ('int','float','double'): return '((%s)0)' % ctype(m, t)
        if t[0] == 'ptr': return '((%s)0)' % ctype(m, t)
        return '((%s){0})' % ctype(m, t) if t[0] != 'array' else '{0}'
    if k == 'cast':
        _, op, st, sv, dt = v
        e = cvalue(m, sv, fg)
        return ccast(m, op, st, e, dt)
    if k == 'gep':
        _, bt, ops, ty = v
        return cgep(m, bt, [(t, cvalue(m, x, fg), x) for t, x in ops])
    if k == 'bin':
        _, op, t, a, b = v
        return cbin(m, op, t, cvalue(m, a, fg), cvalue(m, b, fg))
    if k == 'icmp':
        _, pred, t, a, b = v
        return cicmp(m, pred, t, cvalue(m, a, fg), cvalue(m, b, fg))
    if k == 'select':
        _, c, t, a, b = v
        return '((%s) ? (%s) : (%s))' % (cvalue(m, c, fg), cvalue(m, a, fg), cvalue(m, b, fg))
    if k == 'agg' or k == 'cstr':
        return '((%s)%s)' % (ctype(m, v[2]), cinit(m, v, fg))
    raise NotImplementedError(v)

def cinit(m, v, fg=None):
    """initializer (brace form allowed)"""
    k = v[0]
    if k == 'agg':
        return '{' + ', '.join(cinit(m, x, fg) for _, x in v[1]) + '}' if v[1] else '{0}'
    if k == 'cstr':
        raw = v[1][2:-1]
        bs = []
        i = 0
        while i < len(raw):
            if raw[i] == '\\':
                if raw[i+1] == '\\': bs.append(92); i += 2
                else: bs.append(int(raw[i+1:i+3], 16)); i += 3
            else: bs.append(ord(raw[i])); i += 1
        return '{' + ','.join(str(b) for b in bs) + '}'
    if k in ('zero','undef'):
        t = v[1]
        if t[0] in ('array','struct','lstruct'): return '{0}'
    return cvalue(m, v, fg)

def ccast(m, op, st, e, dt):
    if op in ('bitcast','addrspacecast'):
        if st[0] == 'ptr' and dt[0] == 'ptr': return '((%s)(%s))' % (ctype(m, dt), e)
        if st == dt: return e
        # scalar bitcast (float<->int)
        return '(*(%s*)&(%s){%s})' % (ctype(m, dt), ctype(m, st), e)
    if op == 'ptrtoint': return mask(dt, '((%s)(uintptr_t)(%s))' % (ctype(m, dt), e))
    if op == 'inttoptr': return '((%s)(uintptr_t)(%s))' % (ctype(m, dt), e)
    if op == 'trunc':
        if dt[1] == 1: return '((_Bool)((%s) & 1))' % e
        return mask(dt, '((%s)(%s))' % (ctype(m, dt), e))
    if op == 'zext': return '((%s)(%s))' % (ctype(m, dt), e)
    if op == 'sext': return mask(dt, '((%s)%s)' % (ctype(m, dt), sext_to(st, e)))
    if op in ('uitofp',): return '((%s)(%s))' % (ctype(m, dt), e)
    if op in ('sitofp',): return '((%s)%s)' % (ctype(m, dt), sext_to(st, e))
    if op in ('fptoui',): return mask(dt, '((%s)(%s))' % (ctype(m, dt), e))
    if op in ('fptosi',): return mask(dt, '((%s)(%s)(%s))' % (ctype(m, dt), signed_c(dt), e))
    if op in ('fpext','fptrunc'): return '((%s)(%s))' % (ctype(m, dt), e)
    raise NotImplementedError(op)

def cbin(m, op, t, a, b):
    ct = ctype(m, t)
    if t[0] in ('float','double'):
        o = {'fadd':'+','fsub':'-','fmul':'*','fdiv':'/'}[op]
        return '((%s) %s (%s))' % (a, o, b)
    if t[0] != 'int': raise NotImplementedError((op, t))
    n = t[1]
    if op in ('add','sub','mul','and','or','xor'):
        o = {'add':'+','sub':'-','mul':'*','and':'&','or':'|','xor':'^'}[op]
        return mask(t, '((%s)((%s)(%s) %s (%s)(%s)))' % (ct, widen(ct), a, o, widen(ct), b))
    if op == 'shl': return mask(t, '((%s)((%s)(%s) << (%s)))' % (ct, widen(ct), a, b))
    if op == 'lshr': return '((%s)((%s)(%s) >> (%s)))' % (ct, widen(ct), a, b)
    if op == 'ashr': return mask(t, '((%s)(%s >> (%s)))' % (ct, sext_to(t, a), b))
    if op == 'udiv': return '((%s)((%s) / (%s)))' % (ct, a, b)
    if op == 'urem': return '((%s)((%s) %% (%s)))' % (ct, a, b)
    if op == 'sdiv': return mask(t, '((%s)(%s / %s))' % (ct, sext_to(t, a), sext_to(t, b)))
    if op == 'srem': return mask(t, '((%s)(%s %% %s))' % (ct, sext_to(t, a), sext_to(t, b)))
    raise NotImplementedError(op)

def widen(ct):
    # avoid int promotion to signed int for 8/16-bit operands
    return {'_Bool':'uint32_t','uint8_t':'uint32_t','uint16_t':'uint32_t'}.get(ct, ct)

def cicmp(m, pred, t, a, b):
    if t[0] == 'ptr':
        if pred in ('eq','ne'): return '((%s) %s (%s))' % (a, '==' if pred == 'eq' else '!=', b)
        a = '((uintptr_t)(%s))' % a; b = '((uintptr_t)(%s))' % b
        t = ('int', 64)
    o = {'eq':'==','ne':'!=','ugt':'>','uge':'>=','ult':'<','ule':'<=','sgt':'>','sge':'>=','slt':'<','sle':'<='}[pred]
    if pred[0] == 's': return '(%s %s %s)' % (sext_to(t, a), o, sext_to(t, b))
    return '((%s)(%s) %s (%s)(%s))' % (widen(ctype(m, t)), a, o, widen(ctype(m, t)), b)

def resolve_struct(m, t):
    if t[0] == 'struct': return m.structs[t[1]]
    return t

def cgep(m, bt, ops):
    """ops: list of (type, cexpr, ast); first is the base pointer"""
    base = ops[0][1]
    idx = ops[1:]
    # first index: pointer arithmetic
    e = '(%s)' % base
    cur = bt
    first = idx[0]
    fi = index_expr(first)
    if fi != '0':
        e = '((%s) + %s)' % (base, fi)
    if len(idx) == 1:
        return e
    e = '(*%s)' % e
    for (t, ce, ast) in idx[1:]:
        rt = resolve_struct(m, cur)
        if rt[0] == 'lstruct':
            fno = int(ast[1]); e = '%s.f%d' % (e, fno); cur = rt[1][fno]
        elif rt[0] == 'array':
            e = '%s.a[%s]' % (e, index_expr((t, ce, ast))); cur = rt[2]
        else:
            raise NotImplementedError(('gep into', rt))
    return '(&%s)' % e

def index_expr(x):
    t, ce, ast = x
    if ast[0] == 'num':
        v = int(ast[1])
        return str(v)
    return '((int64_t)%s)' % sext_to(t, ce) if t[1] < 64 else '((int64_t)(%s))' % ce

# ---------------------------------------------------------------------------
BINOPS = {'add','sub','mul','udiv','sdiv','urem','srem','shl','lshr','ashr','and','or','xor','fadd','fsub','fmul','fdiv'}
CASTS = {'bitcast','ptrtoint','inttoptr','trunc','zext','sext','uitofp','sitofp','fptoui','fptosi','fpext','fptrunc','addrspacecast'}

def gen_function(m, f):
    fg = FnGen(m, f)
    # split into blocks
    blocks = collections.OrderedDict()
    cur = 'entry'
    # name of entry block: first unnamed value after params
    blocks[cur] = []
    body = f.body
    # join multi-line switch
    joined = []
    i = 0
    while i < len(body):
        ln = body[i].rstrip()
        if re.match(r'\s*switch ', ln) and ln.rstrip().endswith('['):
            while not body[i].strip().startswith(']'):
                i += 1; ln += ' ' + body[i].strip()
        joined.append(ln); i += 1
    for ln in joined:
        s = ln.strip()
        if not s or s.startswith(';'): continue
        mm = re.match(r'^("(?:[^"\\]|\\.)*"|[-a-zA-Z$._0-9]+):', s)
        if mm and not ln.startswith('  '):
            cur = '%' + mm.group(1); blocks[cur] = []; continue
        blocks[cur].append(s)
    # entry block label: number of unnamed params
    fg.blocks = blocks
    insts = collections.OrderedDict()
    for b, ls in blocks.items():
        insts[b] = [parse_inst(m, fg, l) for l in ls]
    # implicit entry label = %N where N = count of unnamed args ... find preds referencing
    nun = sum(1 for (t, pn, a) in f.params if pn is None or re.match(r'%\d+$', pn))
    entry_label = '%' + str(nun)
    fg.entry_alias = entry_label
    # collect phis per block
    phis = {b: [x for x in il if x[0] == 'phi'] for b, il in insts.items()}
    out = []
    def emit_jump(src, dst):
        dstk = dst if dst in blocks else ('entry' if dst == entry_label else dst)
        ps = phis.get(dstk, [])
        srcname = src if src != 'entry' else entry_label
        code = []
        if ps:
            tmps = []
            for n_, (_, res, t, inc) in enumerate(ps):
                val = None
                for (v, lab) in inc:
                    if lab == srcname: val = v
                if val is None: raise KeyError('phi %s has no incoming for %s' % (res, srcname))
                code.append('%s pt%d = %s;' % (ctype(m, t), n_, cvalue(m, val, fg)))
            for n_, (_, res, t, inc) in enumerate(ps):
                code.append('%s = pt%d;' % (fg.local(res), n_))
        code.append('goto %s;' % fg.label(dstk))
        return '{ ' + ' '.join(code) + ' }'
    for b, il in insts.items():
        out.append('%s: ;' % fg.label(b))
        for ins in il:
            k = ins[0]
            if k == 'phi':
                fg.decls[ins[1]] = ins[2]
            elif k == 'assign':
                _, res, t, expr = ins
                if res is None or t == ('void',): out.append('  %s;' % expr)
                else:
                    fg.decls[res] = t
                    out.append('  %s = %s;' % (fg.local(res), expr))
            elif k == 'alloca':
                _, res, t, cnt = ins
                fg.decls[res] = ('ptr', t)
                fg.allocas.append((res, t, cnt))
            elif k == 'stmt': out.append('  %s' % ins[1])
            elif k == 'br': out.append('  ' + emit_jump(b, ins[1]))
            elif k == 'condbr':
                out.append('  if (%s) %s else %s' % (ins[1], emit_jump(b, ins[2]), emit_jump(b, ins[3])))
            elif k == 'switch':
                _, t, e, dflt, cases = ins
                out.append('  switch (%s) {' % e)
                for (cv, lab) in cases:
                    out.append('    case %s: %s' % (cv, emit_jump(b, lab)))
                out.append('    default: %s }' % emit_jump(b, dflt))
            elif k == 'ret':
                out.append('  return %s;' % ins[1] if ins[1] is not None else '  return;')
            elif k == 'unreachable':
                out.append('  __CPROVER_assert(0, "llvm unreachable reached"); __CPROVER_assume(0);')
            else: raise NotImplementedError(k)
    # header
    hdr = fn_proto(m, f, fg) + ' {'
    decl = []
    byval_copies = []
    for (t, pn, a) in f.params:
        if 'byval' in a and pn:
            bt = a['byval']
            decl.append('  %s bv_%s = *%s; %s = &bv_%s;' % (ctype(m, bt), fg.local(pn), fg.local(pn), fg.local(pn), fg.local(pn)))
    for res, t in fg.decls.items():
        if any(res == r for r, _, _ in fg.allocas): continue
        decl.append('  %s %s;' % (ctype(m, t), fg.local(res)))
    for res, t, cnt in fg.allocas:
        ct = ctype(m, t)
        if cnt is None:
            decl.append('  %s st_%s; %s* %s = &st_%s;' % (ct, fg.local(res), ct, fg.local(res), fg.local(res)))
        else:
            decl.append('  %s st_%s[%s]; %s* %s = st_%s;' % (ct, fg.local(res), cnt, ct, fg.local(res), fg.local(res)))
    return '\n'.join([hdr] + decl + ['  goto %s;' % fg.label('entry')] + out + ['}'])

def fn_proto(m, f, fg=None):
    ps = []
    for n_, (t, pn, a) in enumerate(f.params):
        nm = (fg.local(pn) if (fg and pn) else 'a%d' % n_)
        ps.append('%s %s' % (ctype(m, t), nm))
    if f.va: ps.append('...')
    if not ps: ps = ['void']
    return '%s %s(%s)' % (ctype(m, f.ret), cname(m, f.name), ', '.join(ps))

def strip_meta(toks):
    # drop trailing ", !tbaa !N" / ", align N" / "#N" / "!srcloc !N"
    out = []
    i = 0
    while i < len(toks):
        k, v = toks[i]
        if k == 'meta' or k == 'attrg': i += 1; continue
        out.append(toks[i]); i += 1
    # remove trailing commas created
    res = []
    for j, t in enumerate(out):
        res.append(t)
    while res and res[-1][1] == ',': res.pop()
    # collapse ', ,'
    fin = []
    for t in res:
        if t[1] == ',' and fin and fin[-1][1] == ',': continue
        fin.append(t)
    return fin

def parse_inst(m, fg, line):
    toks = strip_meta(tokenize(line))
    p = P(toks)
    res = None
    if p.peek()[0] == 'id' and p.peek(1)[1] == '=':
        res = p.next()[1]; p.next()
    k, op = p.next()
    while op in ('tail','musttail','notail'): k, op = p.next()
    if op in BINOPS:
        while p.peek()[1] in ('nuw','nsw','exact','fast','nnan','ninf','nsz','arcp','contract','afn','reassoc'): p.next()
        t = parse_type(p); a = parse_value(p, t); p.expect(','); b = parse_value(p, t)
        return ('assign', res, t, cbin(m, op, t, cvalue(m, a, fg), cvalue(m, b, fg)))
    if op == 'fneg':
        t = parse_type(p); a = parse_value(p, t)
        return ('assign', res, t, '(-(%s))' % cvalue(m, a, fg))
    if op in CASTS:
        st, sv = parse_tv(p); p.expect('to'); dt = parse_type(p)
        return ('assign', res, dt, ccast(m, op, st, cvalue(m, sv, fg), dt))
    if op == 'icmp':
        pred = p.next()[1]; t = parse_type(p); a = parse_value(p, t); p.expect(','); b = parse_value(p, t)
        return ('assign', res, ('int',1), cicmp(m, pred, t, cvalue(m, a, fg), cvalue(m, b, fg)))
    if op == 'fcmp':
        while p.peek()[1] in ('fast','nnan','ninf','nsz','arcp','contract','afn','reassoc'): p.next()
        pred = p.next()[1]; t = parse_type(p); a = parse_value(p, t); p.expect(','); b = parse_value(p, t)
        A = cvalue(m, a, fg); B = cvalue(m, b, fg)
        o = {'oeq':'==','ogt':'>','oge':'>=','olt':'<','ole':'<=','one':'!=','ueq':'==','ugt':'>','uge':'>=','ult':'<','ule':'<=','une':'!='}.get(pred)
        if pred == 'ord': e = '((%s)==(%s) && (%s)==(%s))' % (A, A, B, B)
        elif pred == 'uno': e = '((%s)!=(%s) || (%s)!=(%s))' % (A, A, B, B)
        elif pred[0] == 'o': e = '((%s) %s (%s))' % (A, o, B) if pred != 'one' else '((%s)<(%s) || (%s)>(%s))' % (A, B, A, B)
        else: e = '(!((%s)==(%s) && (%s)==(%s)) || ((%s) %s (%s)))' % (A, A, B, B, A, o, B)
        return ('assign', res, ('int',1), e)
    if op == 'select':
        ct, cv = parse_tv(p); p.expect(','); t, a = parse_tv(p); p.expect(','); t2, b = parse_tv(p)
        return ('assign', res, t, '((%s) ? (%s) : (%s))' % (cvalue(m, cv, fg), cvalue(m, a, fg), cvalue(m, b, fg)))
    if op == 'phi':
        t = parse_type(p); inc = []
        while True:
            p.expect('['); v = parse_value(p, t); p.expect(','); lab = p.next()[1]; p.expect(']')
            inc.append((v, lab))
            if not p.accept(','): break
        return ('phi', res, t, inc)
    if op == 'alloca':
        p.accept('inalloca')
        t = parse_type(p); cnt = None
        if p.accept(','):
            if p.peek()[1] == 'align': pass
            else:
                ct, cv = parse_tv(p); cnt = cvalue(m, cv, fg)
        return ('alloca', res, t, cnt)
    if op == 'load':
        p.accept('atomic'); p.accept('volatile')
        t = parse_type(p); p.expect(','); pt, pv = parse_tv(p)
        return ('assign', res, t, '(*(%s))' % cvalue(m, pv, fg))
    if op == 'store':
        p.accept('atomic'); p.accept('volatile')
        t, v = parse_tv(p); p.expect(','); pt, pv = parse_tv(p)
        return ('stmt', '*(%s) = %s;' % (cvalue(m, pv, fg), cvalue(m, v, fg)))
    if op == 'getelementptr':
        p.accept('inbounds')
        bt = parse_type(p); p.expect(',')
        ops = [parse_tv(p)]
        while p.accept(','): ops.append(parse_tv(p))
        rt = gep_result_type(m, bt, ops)
        return ('assign', res, rt, cgep(m, bt, [(t, cvalue(m, x, fg), x) for t, x in ops]))
    if op == 'extractvalue':
        t, v = parse_tv(p); idx = []
        while p.accept(','): idx.append(int(p.next()[1]))
        e = cvalue(m, v, fg); cur = t
        for ix in idx:
            rt = resolve_struct(m, cur)
            if rt[0] == 'lstruct': e = '%s.f%d' % (e, ix); cur = rt[1][ix]
            else: e = '%s.a[%d]' % (e, ix); cur = rt[2]
        return ('assign', res, cur, e)
    if op == 'insertvalue':
        t, v = parse_tv(p); p.expect(','); et, ev = parse_tv(p); idx = []
        while p.accept(','): idx.append(int(p.next()[1]))
        path = ''; cur = t
        for ix in idx:
            rt = resolve_struct(m, cur)
            if rt[0] == 'lstruct': path += '.f%d' % ix; cur = rt[1][ix]
            else: path += '.a[%d]' % ix; cur = rt[2]
        fg.decls[res] = t
        base = cvalue(m, v, fg)
        return ('stmt', '%s = %s; %s%s = %s;' % (fg.local(res), base, fg.local(res), path, cvalue(m, ev, fg)))
    if op == 'call':
        return parse_call(m, fg, p, res)
    if op == 'br':
        if p.peek()[1] == 'label':
            p.next(); return ('br', p.next()[1])
        t, c = parse_tv(p); p.expect(','); p.expect('label'); a = p.next()[1]; p.expect(','); p.expect('label'); b = p.next()[1]
        return ('condbr', cvalue(m, c, fg), a, b)
    if op == 'switch':
        t, v = parse_tv(p); p.expect(','); p.expect('label'); d = p.next()[1]; p.expect('[')
        cases = []
        while not p.accept(']'):
            ct, cv = parse_tv(p); p.expect(','); p.expect('label'); lab = p.next()[1]
            cases.append((cvalue(m, cv, fg), lab))
        return ('switch', t, cvalue(m, v, fg), d, cases)
    if op == 'ret':
        if p.peek()[1] == 'void': return ('ret', None)
        t, v = parse_tv(p); return ('ret', cvalue(m, v, fg))
    if op == 'unreachable': return ('unreachable',)
    if op == 'freeze':
        t, v = parse_tv(p); return ('assign', res, t, cvalue(m, v, fg))
    if op == 'fence': return ('stmt', ';')
    raise NotImplementedError('inst %s: %s' % (op, line))

def gep_result_type(m, bt, ops):
    cur = bt
    for (t, ast) in ops[2:]:
        rt = resolve_struct(m, cur)
        if rt[0] == 'lstruct': cur = rt[1][int(ast[1])]
        elif rt[0] == 'array': cur = rt[2]
        else: raise NotImplementedError(rt)
    return ('ptr', cur)

def parse_call(m, fg, p, res):
    while p.peek()[0] == 'word' and (p.peek()[1] in FN_PREFIX_WORDS or p.peek()[1] in PARAM_ATTRS or p.peek()[1] in PARAM_ATTRS_ARG
                                     or p.peek()[1] in ('fast','nnan','ninf','nsz','arcp','contract','afn','reassoc')):
        w = p.next()[1]
        if w in PARAM_ATTRS_ARG:
            if p.accept('('): p.next(); p.expect(')')
            else: p.next()
    rt = parse_type(p)
    fnty = None
    if rt[0] == 'func': fnty = rt; rt = fnty[1]
    elif rt[0] == 'ptr' and rt[1][0] == 'func' and p.peek()[0] != 'id':
        pass
    callee = parse_value(p, ('ptr', ('void',)))
    p.expect('(')
    args = []
    if not p.accept(')'):
        while True:
            if p.peek()[1] == 'metadata':
                # debug intrinsics etc: skip everything
                depth = 1
                while depth:
                    x = p.next()[1]
                    if x == '(': depth += 1
                    elif x == ')': depth -= 1
                args = None; break
            t = parse_type(p); a = skip_param_attrs(p); v = parse_value(p, t)
            args.append((t, v, a))
            if p.accept(')'): break
            p.expect(',')
    if args is None: return ('stmt', ';')
    name = callee[1] if callee[0] == 'ref' else None
    cargs = [cvalue(m, v, fg) for (t, v, a) in args]
    if name in ('@__CPROVER_assert', '@__CPROVER_assume'):
        if name == '@__CPROVER_assume': return ('stmt', '__CPROVER_assume(%s);' % cargs[0])
        msg = 'assertion'
        v = args[1][1]
        while v[0] in ('cast',): v = v[3]
        if v[0] == 'gep': v = v[2][0][1]
        if v[0] == 'ref' and v[1] in m.globals and m.globals[v[1]]['init'] and m.globals[v[1]]['init'][0] == 'cstr':
            raw = m.globals[v[1]]['init'][1][2:-1]
            msg = re.sub(r'\\[0-9A-Fa-f]{2}', '', raw)
        return ('stmt', '__CPROVER_assert(%s, "%s");' % (cargs[0], msg.replace('"', "'")))
    if name and name.startswith('@llvm.'):
        e = intrinsic(m, name[1:], rt, args, cargs)
        if e is None: return ('stmt', ';')
        return ('assign', res, rt, e)
    if name and name[0] == '@' and name in m.funcs:
        f = m.funcs[name]
        # cast args to declared param types when they differ
        ca = []
        for n_, (t, v, a) in enumerate(args):
            if n_ < len(f.params) and f.params[n_][0] != t and t[0] == 'ptr':
                ca.append('((%s)%s)' % (ctype(m, f.params[n_][0]), cargs[n_]))
            else: ca.append(cargs[n_])
        e = '%s(%s)' % (cname(m, name), ', '.join(ca))
        if f.ret != rt and rt != ('void',): e = '((%s)%s)' % (ctype(m, rt), e)
    else:
        # indirect call
        ft = fnty or ('func', rt, tuple(t for (t, v, a) in args), False)
        e = '((%s*)%s)(%s)' % (fn_typedef(m, ft), cvalue(m, callee, fg), ', '.join(cargs))
    return ('assign', res if rt != ('void',) else None, rt, e)

def intrinsic(m, name, rt, args, cargs):
    if name.startswith('llvm.lifetime') or name.startswith('llvm.dbg') or name.startswith('llvm.experimental.noalias') or name.startswith('llvm.prefetch') or name.startswith('llvm.assume') or name.startswith('llvm.invariant') or name.startswith('llvm.donothing'):
        return None
    if name.startswith('llvm.memcpy'): return 'memcpy(%s, %s, %s)' % (cargs[0], cargs[1], cargs[2])
    if name.startswith('llvm.memmove'): return 'memmove(%s, %s, %s)' % (cargs[0], cargs[1], cargs[2])
    if name.startswith('llvm.memset'): return 'memset(%s, %s, %s)' % (cargs[0], cargs[1], cargs[2])
    t = args[0][0]
    if name.startswith('llvm.umax'): return '((%s) > (%s) ? (%s) : (%s))' % (cargs[0], cargs[1], cargs[0], cargs[1])
    if name.startswith('llvm.umin'): return '((%s) < (%s) ? (%s) : (%s))' % (cargs[0], cargs[1], cargs[0], cargs[1])
    if name.startswith('llvm.smax'): return '(%s > %s ? (%s) : (%s))' % (sext_to(t, cargs[0]), sext_to(t, cargs[1]), cargs[0], cargs[1])
    if name.startswith('llvm.smin'): return '(%s < %s ? (%s) : (%s))' % (sext_to(t, cargs[0]), sext_to(t, cargs[1]), cargs[0], cargs[1])
    if name.startswith('llvm.abs'): return mask(t, '((%s)(%s < 0 ? -%s : %s))' % (ctype(m, t), sext_to(t, cargs[0]), sext_to(t, cargs[0]), sext_to(t, cargs[0])))
    if name.startswith('llvm.expect'): return cargs[0]
    if name.startswith('llvm.bswap'): return '__builtin_bswap%d(%s)' % (t[1], cargs[0])
    if name.startswith('llvm.ctlz'): return '((%s)((%s) ? __builtin_clz%s(%s)%s : %d))' % (ctype(m, t), cargs[0], 'll' if t[1] == 64 else '', cargs[0], '' if t[1] >= 32 else ' - %d' % (32 - t[1]), t[1])
    if name.startswith('llvm.cttz'): return '((%s)((%s) ? __builtin_ctz%s(%s) : %d))' % (ctype(m, t), cargs[0], 'll' if t[1] == 64 else '', cargs[0], t[1])
    if name.startswith('llvm.ctpop'): return '((%s)__builtin_popcount%s(%s))' % (ctype(m, t), 'll' if t[1] == 64 else '', cargs[0])
    if name.startswith('llvm.fshl') or name.startswith('llvm.fshr'):
        n = t[1]; a, b, c = cargs
        sh = '((%s) %% %d)' % (c, n)
        if 'fshl' in name: return mask(t, '((%s)(%s ? (((%s) << %s) | ((%s) >> (%d - %s))) : (%s)))' % (ctype(m, t), sh, a, sh, b, n, sh, a))
        return mask(t, '((%s)(%s ? (((%s) >> %s) | ((%s) << (%d - %s))) : (%s)))' % (ctype(m, t), sh, b, sh, a, n, sh, b))
    if name.startswith('llvm.trap'): return '__CPROVER_assert(0, "llvm.trap")'
    if name.startswith('llvm.stacksave'): return '((uint8_t*)0)'
    if name.startswith('llvm.stackrestore'): return None
    if '.with.overflow' in name:
        op = name.split('.')[1]
        n = t[1]; a, b = cargs
        st = ctype(m, rt)
        if op[0] == 'u':
            big = 'unsigned __int128'
            o = {'uadd':'+','usub':'-','umul':'*'}[op]
            full = '((%s)(%s) %s (%s)(%s))' % (big, a, o, big, b)
            return '((%s){ (%s)%s, (%s != (%s)(%s)%s) })' % (st, ctype(m, t), full, full, big, ctype(m, t), full)
        else:
            big = '__int128'
            o = {'sadd':'+','ssub':'-','smul':'*'}[op]
            full = '((%s)%s %s (%s)%s)' % (big, sext_to(t, a), o, big, sext_to(t, b))
            return '((%s){ (%s)%s, (%s != (%s)(%s)(%s)%s) })' % (st, ctype(m, t), full, full, big, signed_c(t), ctype(m, t), full)
    raise NotImplementedError('intrinsic ' + name)

# ---------------------------------------------------------------------------
def emit_module(m, skip):
    parts = []
    parts.append('/* generated by ir2c.py -- do not edit */\n#include <stdint.h>\n#include <stddef.h>\nvoid *memcpy(void*, const void*, size_t); void *memmove(void*, const void*, size_t); void *memset(void*, int, size_t);\n')
    # force struct names
    for name in m.structs: cname(m, name)
    fn_bodies = []
    gl = []
    # globals & function prototypes need types: generate text first (fills lit structs etc.)
    protos = []
    for name, f in m.funcs.items():
        if name.startswith('@llvm.'): continue
        if name[1:].startswith('__CPROVER'): continue
        protos.append(fn_proto(m, f) + ';')
    for name, g in m.globals.items():
        if g['alias'] is not None or name.startswith('@llvm.'): continue
        ct = ctype(m, g['type'])
        nm = cname(m, name)
        if g['external'] or g['init'] is None:
            gl.append(('decl', 'extern %s %s;' % (ct, nm)))
        else:
            gl.append(('decl', 'extern %s %s;' % (ct, nm)))
    gdefs = []
    for name, g in m.globals.items():
        if g['alias'] is not None or g['external'] or g['init'] is None or name.startswith('@llvm.'): continue
        ct = ctype(m, g['type']); nm = cname(m, name)
        gdefs.append('%s %s = %s;' % (ct, nm, cinit(m, g['init'])))
    for name, f in m.funcs.items():
        if f.body is None or name[1:] in skip or name.startswith('@llvm.'): continue
        try:
            fn_bodies.append(gen_function(m, f))
        except Exception as e:
            raise RuntimeError('in function %s: %r' % (name, e))
    if '@llvm.global_ctors' in m.globals:
        g = m.globals['@llvm.global_ctors']
        calls = []
        for _, item in g['init'][1]:
            fn = item[1][1][1]
            while fn[0] == 'cast': fn = fn[3]
            calls.append('  %s();' % cname(m, fn[1]))
        protos.append('void ir2c_global_ctors(void);')
        fn_bodies.append('void ir2c_global_ctors(void) {\n%s\n}' % '\n'.join(calls))
    for name, g in m.globals.items():
        if g['alias'] is None: continue
        tgt = g['alias']
        while tgt[0] == 'cast': tgt = tgt[3]
        if tgt[0] == 'ref' and tgt[1] in m.funcs and g['type'][0] == 'func':
            tf = m.funcs[tgt[1]]
            af = Func(); af.name = name; af.ret = tf.ret; af.params = tf.params; af.va = tf.va; af.body = None
            args = ', '.join('a%d' % i for i in range(len(tf.params)))
            protos.append(fn_proto(m, af) + ';')
            fn_bodies.append('%s { %s%s(%s); }' % (fn_proto(m, af), '' if tf.ret == ('void',) else 'return ', cname(m, tgt[1]), args))
        else:
            raise NotImplementedError(('alias', name))
    # type definitions, ordered
    tdefs = emit_types(m)
    parts.append(tdefs)
    parts.append('\n'.join(protos))
    parts.append('\n'.join(x for _, x in gl))
    parts.append('\n'.join(gdefs))
    parts.append('\n\n'.join(fn_bodies))
    return '\n\n'.join(parts) + '\n'

def emit_types(m):
    out = []
    for name in m.structs: out.append('struct %s;' % cname(m, name))
    body = []
    done = set()
    def byval_deps(t, acc):
        k = t[0]
        if k == 'struct': acc.append(('S', t[1]))
        elif k == 'lstruct': acc.append(('L', t))
        elif k == 'array': acc.append(('A', t))
    def fn_deps(t, acc):
        # function typedefs referenced (through pointers) anywhere inside t
        k = t[0]
        if k == 'ptr': fn_deps(t[1], acc)
        elif k == 'func':
            acc.append(t); fn_deps(t[1], acc)
            for q in t[2]: fn_deps(q, acc)
        elif k == 'array': fn_deps(t[2], acc)
        elif k == 'lstruct':
            for q in t[1]: fn_deps(q, acc)
    fdone = set(); fout = []
    def emit_fn(t):
        if t in fdone: return
        fdone.add(t)
        acc = []; fn_deps(t[1], acc)
        for q in t[2]: fn_deps(q, acc)
        for d in acc: emit_fn(d)
        nm = fn_typedef(m, t)
        ret = ctype(m, t[1]); ps = [ctype(m, q) for q in t[2]]
        if t[3] and ps: ps.append('...')
        if not ps: ps = [] if t[3] else ['void']
        fout.append('typedef %s %s(%s);' % (ret, nm, ', '.join(ps)))
    def emit(key):
        if key in done: return
        done.add(key)
        kind, x = key
        if kind == 'S':
            b = m.structs[x]
            if b[0] == 'opaque': return
            fts = b[1]; nm = cname(m, x); packed = b[2]
        elif kind == 'L':
            fts = x[1]; nm = ctype(m, x).split()[1]; packed = x[2]
        else:
            acc = []; byval_deps(x[2], acc)
            for d in acc: emit(d)
            nm = ctype(m, x)
            body.append('struct %s { %s a[%d]; };' % (nm, ctype(m, x[2]), max(x[1], 1)))
            return
        for ft in fts:
            acc = []; byval_deps(ft, acc)
            for d in acc: emit(d)
        fields = ' '.join('%s f%d;' % (ctype(m, ft), i) for i, ft in enumerate(fts)) or 'char empty_;'
        body.append('struct %s%s { %s };' % ('__attribute__((packed)) ' if packed else '', nm, fields))
    while True:
        before = (len(done), len(fdone))
        for name in list(m.structs): emit(('S', name))
        for t in list(m.lit_structs): emit(('L', t))
        for t in list(m.arr_types): emit(('A', t))
        for t in list(m.fn_types): emit_fn(t)
        if (len(done), len(fdone)) == before: break
    fwd = ['struct %s;' % v for v in m.lit_structs.values()] + ['typedef struct %s %s;' % (v, v) for v in m.arr_types.values()]
    return '\n'.join(out + fwd + fout + body)

def load_models(path):
    pre = []; models = collections.OrderedDict(); cur = None
    for ln in open(path).read().split('\n'):
        mm = re.match(r'//@\s*(\S+)', ln)
        if mm: cur = mm.group(1); models[cur] = []; continue
        (pre if cur is None else models[cur]).append(ln)
    return '\n'.join(pre), {k: '\n'.join(v) for k, v in models.items()}

def emit_models(m, skip, pre, models):
    out = [pre]
    missing = []
    for name, f in m.funcs.items():
        raw = name[1:]
        if raw.startswith('llvm.') or raw.startswith('__CPROVER') or raw.startswith('nondet_'): continue
        if f.body is not None and raw not in skip: continue
        if raw in models:
            ret = ctype(m, f.ret)
            out.append('%s {\n  typedef %s RET;\n%s\n}' % (fn_proto(m, f), ret if ret != 'void' else 'int', models[raw]))
        else: missing.append(raw)
    return '\n\n'.join(out), missing

def main():
    src = sys.argv[1]; dst = sys.argv[2]
    skip = set()
    if '--skip' in sys.argv:
        skip = set(sys.argv[sys.argv.index('--skip') + 1].split(','))
    m = parse_module(open(src).read())
    c = emit_module(m, skip)
    # types may have been registered while emitting functions: re-emit once more
    c = emit_module_final(m, skip, c)
    if '--models' in sys.argv:
        pre, models = load_models(sys.argv[sys.argv.index('--models') + 1])
        mc, missing = emit_models(m, skip, pre, models)
        c = emit_module(m, skip) + '\n' + mc + '\n'
        if missing: sys.stderr.write('ir2c: external functions without a model:\n' + ''.join('  %s\n' % x for x in missing))
    open(dst, 'w').write(c)

def emit_module_final(m, skip, c):
    # second pass so that every literal/array/function type registered during body generation has a definition
    return emit_module(m, skip)

if __name__ == '__main__':
    main()

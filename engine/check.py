#!/usr/bin/env python3-vt
"""check: decide one property on /repo's current working tree.

  check.py <property-id> [--tier quick|thorough] [--job NAME] [--keep]
  check.py --replay <replay.json>

exit 0  every path inside the stated bounds was explored and no assertion can fail (known findings are printed, not failed)
exit 1  a counterexample was found by the solver AND reproduced natively against the real code: VIOLATION line printed
exit 2  inconclusive (a budget ran out, the solver answered unknown): never reported as success
exit 3  internal disagreement / harness no longer builds: the machinery, not ninja, needs attention
"""
import os, sys, json, time, shutil, tempfile, subprocess, hashlib, re, collections, argparse
HERE = os.path.dirname(os.path.abspath(__file__)); VERIF = os.path.dirname(HERE)
sys.path.insert(0, HERE)
import irbuild, explore, forkexplore, catalog

def load_known(prop):
    p = os.path.join(VERIF, 'known_findings.json')
    if not os.path.exists(p): return []
    return [k for k in json.load(open(p)).get('findings', []) if k['property'] == prop]

def run_native(exe, vector, timeout=60, files=None):
    d = tempfile.mkdtemp(prefix='vnat_')
    try:
        vf = os.path.join(d, 'vector.txt')
        open(vf, 'w').write('\n'.join(str(v) for _, v in vector) + '\n')
        wd = os.path.join(d, 'wd'); os.mkdir(wd)
        try:
            r = subprocess.run([exe, vf, wd], stdout=subprocess.PIPE, stderr=subprocess.PIPE, timeout=timeout, errors='replace')
            rc, out, err = r.returncode, r.stdout, r.stderr
        except subprocess.TimeoutExpired as e:
            rc, out, err = -999, (e.stdout or b'').decode('latin1') if isinstance(e.stdout, bytes) else (e.stdout or ''), 'TIMEOUT'
        obs = [int(l[4:]) for l in out.splitlines() if l.startswith('OBS ')]
        fails = [l[12:] for l in out.splitlines() if l.startswith('ASSERT-FAIL ')]
        reach = sorted(set(l[6:] for l in out.splitlines() if l.startswith('REACH ')))
        return dict(rc=rc, obs=obs, fails=fails, reach=reach, done='DONE ' in out, err=err[-2000:], out=out[-2000:], full=out)
    finally:
        shutil.rmtree(d, ignore_errors=True)

def job_defines(job, tier):
    return list(job.get('defines', [])) + list(job.get(tier, {}).get('defines', []))

def run_job(prop, job, tier, builder, seed, log):
    t0 = time.time()
    name = job['name']; defines = job_defines(job, tier)
    units = job.get('units', irbuild.PIPELINE)
    known = [k for k in load_known(prop) if re.fullmatch(k.get('job', name), name)]
    tb = time.time()
    ll = builder.link(prop + '_' + name, job['harness'], units, defines, stubs=job.get('stubs', True), iquote=job.get('iquote', False), support=job.get('support', ()), stubs_defines=job.get('stubs_defines', ()))
    build_s = time.time() - tb
    lim = dict(job.get('limits', {})); lim.update(job.get(tier, {}).get('limits', {}))
    opts = dict(max_steps=lim.get('max_steps', 20000000), max_depth=lim.get('max_depth', 400), known=known, hooks=tuple(job.get('hooks', ())))
    explorer = explore if os.environ.get('VERIF_EXPLORER') == 'pool' else forkexplore
    ex = explorer.explore(ll, workers=int(os.environ.get('VERIF_WORKERS', '16')), max_paths=lim.get('max_paths', 300000),
                         time_limit=lim.get('time', 900), engine_opts=opts, seed=seed, stop_on_inconclusive=job.get('budget_overrun_is_violation', False))
    res = dict(job=name, defines=defines, units=list(units), build_s=round(build_s, 1), explore=ex, status='ok', messages=[], violations=[], known_hits=[],
               validated=0, native_mismatch=[])
    log('  job %-28s paths=%d pending=%d decisions=%d solver=%d/%.1fs wall=%.1fs ends=%s' % (name, ex['paths'], ex['pending'], ex['decisions'], ex['solver_calls'], ex['solver_time'], ex['wall'], dict(ex['ends'])))
    if ex['engine_errors']:
        res['status'] = 'internal'; res['messages'].append('engine error: ' + ex['engine_errors'][0]); return res
    # group violations
    groups = collections.OrderedDict()
    for v in ex['violations']:
        groups.setdefault((v['msg'], v['known']), v)
    hang = job.get('budget_overrun_is_violation', False)
    need_native = bool(groups) or job.get('validate', True) or bool(ex['inconclusive'])
    exe = exe_san = None
    if need_native:
        try:
            exe = builder.native(prop + '_' + name, job['harness'], units, defines, stubs=job.get('stubs', True), iquote=job.get('iquote', False), support=job.get('support', ()), stubs_defines=job.get('stubs_defines', ()), wrap=job.get('wrap', ()))
        except irbuild.BuildError as e:
            res['status'] = 'internal'; res['messages'].append('native build failed: ' + str(e)[-1500:]); return res
    # engine self-check: same vectors through the natively compiled harness
    if job.get('validate', True) and exe:
        nval = lim.get('validate', 24 if tier == 'quick' else 64)
        vecs = [v for v in ex['vectors'] if not v['asserts_failed']][:nval]
        for v in vecs:
            n = run_native(exe, v['vector'])
            ok = n['done'] and n['obs'] == v['obs'] and not n['fails'] and n['reach'] == v['reached']
            if ok: res['validated'] += 1
            else: res['native_mismatch'].append(dict(vector=v['vector'], engine_obs=v['obs'][:30], native_obs=n['obs'][:30], native_fails=n['fails'], rc=n['rc'], engine_reach=v['reached'], native_reach=n['reach'], err=n['err'][-300:]))
        if res['native_mismatch']:
            res['status'] = 'internal'; res['messages'].append('interpreter and native build disagree on %d of %d sampled paths' % (len(res['native_mismatch']), len(vecs)))
    # replay counterexamples
    for (msg, kid), v in groups.items():
        is_mem = not msg.startswith(('C', 'W')) or msg.startswith('C++')
        n = run_native(exe, v['vector']) if exe else None
        reproduced = n is not None and (msg in n['fails'])
        if not reproduced and is_mem:
            try:
                if exe_san is None:
                    exe_san = builder.native(prop + '_' + name, job['harness'], units, defines, stubs=job.get('stubs', True), iquote=job.get('iquote', False), sanitize=True, support=job.get('support', ()), stubs_defines=job.get('stubs_defines', ()), wrap=job.get('wrap', ()))
                n = run_native(exe_san, v['vector'], timeout=120)
                reproduced = (n['rc'] not in (0, 2, 77, 78)) or not n['done']
            except irbuild.BuildError as e:
                res['messages'].append('sanitizer build failed: ' + str(e)[-500:])
        entry = dict(assertion=msg, known=kid, vector=v['vector'], notes=v.get('notes', []), reproduced=bool(reproduced),
                     native=dict(rc=n['rc'], fails=n['fails'], err=n['err'][-600:]) if n else None)
        if not reproduced:
            res['status'] = 'internal'; res['messages'].append('counterexample for "%s" does not reproduce natively: engine or model bug, not reported as a violation' % msg)
            res['violations'].append(entry); continue
        if kid: res['known_hits'].append(entry)
        else: res['violations'].append(entry)
    if not ex['complete'] and res['status'] == 'ok':
        if hang and ex['inconclusive']:
            # replay natively under a watchdog: a hang reproduces as a timeout (or as memory exhaustion / abnormal end)
            vec = (ex.get('inconclusive_vectors') or [[]])[0]
            n = run_native(exe, vec, timeout=20) if exe and vec else None
            rep = n is not None and (n['rc'] == -999 or not n['done'])
            res['violations'].append(dict(assertion='budget overrun (hang / unbounded work): ' + ex['inconclusive'][0], known=None, vector=vec, notes=[], reproduced=bool(rep), native=dict(rc=n['rc'], fails=n['fails'], err=n['err'][-300:]) if n else None))
            if not rep: res['status'] = 'inconclusive'; res['messages'].append('step budget exhausted but the natively compiled harness finishes on that input: inconclusive, not reported as a hang')
        else:
            res['status'] = 'inconclusive'; res['messages'].append('exploration incomplete: pending=%d inconclusive paths=%d %s' % (ex['pending'], ex['ends'].get('inconclusive', 0), ex['inconclusive'][:1]))
    missing = [l for l in job.get('reach', []) if l not in ex['reached']]
    if missing and res['status'] == 'ok' and not res['violations']:
        res['status'] = 'internal'; res['messages'].append('vacuity witness not reached: %s' % missing)
    res['wall'] = time.time() - t0
    return res

def write_replay(prop, tier, job, entry):
    os.makedirs(os.path.join(VERIF, 'replays'), exist_ok=True)
    dig = hashlib.sha1(json.dumps([job['name'], entry['assertion'], entry['vector']]).encode()).hexdigest()[:10]
    path = os.path.join(VERIF, 'replays', '%s-%s-%s.json' % (prop, job['name'], dig))
    json.dump(dict(property=prop, tier=tier, job=job['name'], harness=job['harness'], defines=job_defines(job, tier), units=job.get('units', irbuild.PIPELINE),
                   stubs=job.get('stubs', True), iquote=job.get('iquote', False), support=list(job.get('support', ())), stubs_defines=list(job.get('stubs_defines', ())), wrap=list(job.get('wrap', ())), assertion=entry['assertion'], vector=entry['vector'], notes=entry.get('notes', [])), open(path, 'w'), indent=1)
    return path

def do_replay(path, extra_defines=()):
    r = json.load(open(path)); r['defines'] = list(r['defines']) + list(extra_defines)
    scratch = tempfile.mkdtemp(prefix='vreplay_')
    try:
        b = irbuild.Builder(scratch)
        exe = b.native('replay', r['harness'], r['units'], r['defines'], stubs=r['stubs'], iquote=r['iquote'], support=r.get('support', ()), stubs_defines=r.get('stubs_defines', ()), wrap=r.get('wrap', ()))
        n = run_native(exe, [tuple(x) for x in r['vector']])
        print(n['out'] if not extra_defines else n['full']); print(n['err'], file=sys.stderr)
        if r['assertion'] in n['fails']: print('REPRODUCED: ' + r['assertion']); return 1
        if n['rc'] not in (0, 2) or not n['done']: print('REPRODUCED (abnormal termination rc=%s)' % n['rc']); return 1
        print('not reproduced'); return 0
    finally:
        shutil.rmtree(scratch, ignore_errors=True)

def main():
    ap = argparse.ArgumentParser()
    ap.add_argument('prop', nargs='?'); ap.add_argument('--tier', default=os.environ.get('VERIF_TIER', 'quick'))
    ap.add_argument('--job'); ap.add_argument('--replay'); ap.add_argument('--keep', action='store_true'); ap.add_argument('--all-jobs', action='store_true'); ap.add_argument('--define', action='append', default=[]); ap.add_argument('--no-evidence', action='store_true'); ap.add_argument('--merge-evidence', action='store_true', help='with --job a,b: replace / add the entries of these jobs in the existing evidence file (each entry is stamped with run_at)')
    a = ap.parse_args()
    if a.replay: sys.exit(do_replay(a.replay, a.define))
    prop = a.prop; tier = a.tier if a.tier in ('quick', 'thorough') else 'quick'
    seed = int(os.environ.get('VERIF_SEED', '0') or 0)
    spec = catalog.CHECKS[prop]
    t0 = time.time()
    scratch = tempfile.mkdtemp(prefix='verif_%s_' % prop, dir=os.environ.get('TMPDIR', '/tmp'))
    def log(m): print(m, flush=True)
    log('[%s] %s tier=%s seed=%d repo=%s' % (prop, spec['title'], tier, seed, irbuild.REPO))
    results = []; status = 'ok'
    try:
        builder = irbuild.Builder(scratch)
        for job in spec['jobs']:
            if a.job and job['name'] not in a.job.split(','): continue
            if tier == 'quick' and job.get('thorough_only') and not a.all_jobs and not a.job: continue
            try:
                r = run_job(prop, job, tier, builder, seed, log)
            except irbuild.BuildError as e:
                r = dict(job=job['name'], status='internal', messages=['cannot build harness against the current tree: ' + str(e)[-2500:]], violations=[], known_hits=[], explore=None, validated=0)
            results.append((job, r))
            for m in r['messages']: log('    ' + m)
    finally:
        if not a.keep: shutil.rmtree(scratch, ignore_errors=True)
    # verdict
    nviol = 0; rc = 0
    for job, r in results:
        for k in r['known_hits']:
            log('KNOWN-FINDING: property=%s %s [%s] %s' % (prop, k['known'], job['name'], k['assertion']))
        for v in r['violations']:
            if v['reproduced']:
                path = write_replay(prop, tier, job, v); nviol += 1
                log('VIOLATION property=%s replay=%s' % (prop, path))
                log('    assertion: %s\n    counterexample: %s' % (v['assertion'], ' '.join('%s=%s' % (n, x) for n, x in v['vector'])[:600]))
    if nviol: rc = 1
    elif any(r['status'] == 'internal' for _, r in results): rc = 3
    elif any(r['status'] == 'inconclusive' for _, r in results): rc = 2
    wall = time.time() - t0
    if not a.no_evidence and (not a.job or a.merge_evidence):
        write_evidence(prop, spec, tier, seed, results, wall, nviol, rc, merge=bool(a.job and a.merge_evidence))
    log('[%s] exit %d  (%.1fs)' % (prop, rc, wall))
    sys.exit(rc)

def write_evidence(prop, spec, tier, seed, results, wall, nviol, rc, merge=False):
    states = trans = val = 0; samples = []; jobs = []; solver_q = 0; solver_t = 0.0; steps = 0; asserts = collections.Counter(); reached = collections.Counter()
    for job, r in results:
        ex = r.get('explore')
        if not ex: jobs.append(dict(job=job['name'], status=r['status'], messages=r['messages'])); continue
        states += ex['paths']; trans += ex['decisions']; val += r['validated']; solver_q += ex['solver_calls']; solver_t += ex['solver_time']; steps += ex['steps']
        for k, v in ex['asserts'].items(): asserts[k] += v
        for k, v in ex['reached'].items(): reached[job['name'] + ':' + k] += v
        for s_ in ex['samples'][:3]: samples.append(dict(job=job['name'], **s_))
        jobs.append(dict(job=job['name'], harness='harness/' + job['harness'], defines=r['defines'], units_encoded=['src/%s.cc' % u for u in r['units']],
                         bounds=job.get(tier, {}).get('bounds', job.get('bounds', '')), paths=ex['paths'], pending=ex['pending'], ends=dict(ex['ends']), decisions=ex['decisions'],
                         ir_instructions_executed=ex['steps'], longest_path_instructions=ex['max_steps_path'], solver_queries=ex['solver_calls'], solver_time_s=round(ex['solver_time'], 2),
                         explore_wall_s=round(ex['wall'], 1), run_at=time.strftime('%Y-%m-%dT%H:%M:%SZ', time.gmtime()), build_s=r['build_s'], complete=ex['complete'], native_validated=r['validated'], status=r['status'], messages=r['messages'],
                         known_findings_hit=[k['known'] for k in r['known_hits']], violations=[dict(assertion=v['assertion'], reproduced=v['reproduced'], vector=v['vector'][:60]) for v in r['violations']]))
    merged_note = None
    evpath = os.path.join(VERIF, 'evidence', prop + '.json')
    if merge and os.path.exists(evpath):
        # entries of the jobs run now replace the stored ones; the others are kept as stored (each produced by this program against /repo, see run_at), as long as the job still exists
        old = json.load(open(evpath)); oc = old.get('coverage', {}); new_names = set(j['job'] for j in jobs)
        current = set(j['name'] for j in spec['jobs'] if not (tier == 'quick' and j.get('thorough_only')))
        kept = [j for j in oc.get('jobs', []) if j['job'] not in new_names and j['job'] in current]
        jobs = kept + jobs
        states = sum(j.get('paths', 0) for j in jobs); trans = sum(j.get('decisions', 0) for j in jobs); val = sum(j.get('native_validated', 0) for j in jobs)
        solver_q = sum(j.get('solver_queries', 0) for j in jobs); solver_t = sum(j.get('solver_time_s', 0.0) for j in jobs); steps = sum(j.get('ir_instructions_executed', 0) for j in jobs)
        samples = [x for x in oc.get('samples', []) if isinstance(x, dict) and x.get('job') not in new_names][:9] + samples
        for k, v in oc.get('assertions_evaluated', {}).items(): asserts[k] = max(asserts.get(k, 0), v)
        for k, v in oc.get('witnesses_reached', {}).items():
            if k.split(':')[0] not in new_names: reached[k] = v
        # the verdict of the merged file is recomputed from its entries (a stored entry that was not ok stays not ok until its job is run again)
        nviol = sum(1 for j in jobs for v in j.get('violations', []) if v.get('reproduced'))
        rc = 1 if nviol else 3 if any(j.get('status') == 'internal' for j in jobs) else 2 if any(j.get('status') == 'inconclusive' for j in jobs) else 0
        wall = wall + float(old.get('wall_s', 0) or 0)
        merged_note = 'job entries were produced by separate runs of this check (see run_at per job; entries without run_at are from the last full run); wall_s is the sum over those runs'
    ev = dict(property_id=prop, tier=tier, seed=seed, level='model_checking',
              coverage=dict(states=max(states, 0), transitions=max(trans, 0), traces_validated_against_impl=val, samples=samples[:12] or [dict(note='no path completed')],
                            exhaustive=all(j.get('complete') for j in jobs), explanation='bounded symbolic execution of the LLVM IR clang-14 produces from /repo/src (engine/symex.py + z3): states = paths explored to completion (each stands for every input satisfying its path condition), transitions = solver-decided symbolic decisions, traces_validated = sampled paths whose solver-produced concrete vector was re-run through the natively compiled (g++) harness + real sources with identical observations',
                            jobs=jobs, assertions_evaluated=dict(asserts), witnesses_reached=dict(reached), solver_queries=solver_q, solver_time_s=round(solver_t, 2), ir_instructions_executed=steps,
                            exit_code=rc),
              assumptions=spec.get('assumptions', []), wall_s=round(wall, 1), violations=nviol)
    if merged_note: ev['coverage']['merged'] = merged_note
    os.makedirs(os.path.join(VERIF, 'evidence'), exist_ok=True)
    json.dump(ev, open(os.path.join(VERIF, 'evidence', prop + '.json'), 'w'), indent=1, default=str)

if __name__ == '__main__':
    main()

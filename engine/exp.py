import sys; sys.path.insert(0,"/verif/engine")
import sys, irbuild, forkexplore as explore, time, shutil, json
sys.path.insert(0,'/verif/engine')
import check
harness, units, defs, tl = sys.argv[1], sys.argv[2].split(','), sys.argv[3].split(',') if sys.argv[3] else [], float(sys.argv[4])
import os; scr='/tmp/vexp%d'%os.getpid(); b=irbuild.Builder(scr); 
ll=b.link('exp', harness, units, defs, stubs=('nostubs' not in sys.argv))
known=[k for k in check.load_known(sys.argv[5])] if len(sys.argv)>5 and sys.argv[5].startswith('C') else []
hooks=tuple(a[6:] for a in sys.argv if a.startswith('hooks='))
r=explore.explore(ll, time_limit=tl, engine_opts=dict(known=known, hooks=hooks))
vs=r.pop('violations'); r.pop('vectors'); sm=r.pop('samples')
print(r)
seen=set()
for v in vs:
    k=(v['msg'],v['known'])
    if k in seen: continue
    seen.add(k); print('VIOL',v['known'],v['msg'],v['vector'])
shutil.rmtree(scr)

#!/usr/bin/env python3-vt
"""setup: byte-compile the engine and run a 2-second self-test (toolchain present, z3 importable, one tiny harness explored)."""
import os, sys, py_compile, shutil, tempfile, subprocess
HERE = os.path.dirname(os.path.abspath(__file__)); sys.path.insert(0, HERE)
for f in os.listdir(HERE):
    if f.endswith('.py'): py_compile.compile(os.path.join(HERE, f), doraise=True)
import z3, irbuild, explore
for tool in ('clang++-14', 'llvm-link-14', 'opt-14', 'g++'):
    if shutil.which(tool) is None: sys.exit('missing tool: ' + tool)
d = tempfile.mkdtemp(prefix='verif_selftest_')
try:
    b = irbuild.Builder(d)
    ll = b.link('selftest', 'c14_canon.cc', ['util'], ['VERIF_N=3'], stubs=False)
    r = explore.explore(ll, workers=4, time_limit=120)
    assert r['complete'] and r['paths'] > 10 and not r['violations'], r
    print('selftest ok: %d paths, z3 %s' % (r['paths'], z3.get_version_string()))
finally:
    shutil.rmtree(d, ignore_errors=True)

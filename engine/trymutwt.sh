#!/bin/bash
# usage: trymutwt.sh <patch.diff> <property> [extra check.py args]
#   applies a seeded change to a scratch worktree of /repo (never to /repo itself), runs the check against it (VERIF_REPO), removes the worktree
patch=$(readlink -f "$1"); prop=$2; shift 2
wt=/tmp/mutwt_$$
git -C /repo worktree add --detach $wt HEAD >/dev/null 2>&1 || { echo "cannot create worktree"; exit 9; }
trap 'git -C /repo worktree remove --force '$wt' >/dev/null 2>&1; git -C /repo worktree prune' EXIT
git -C $wt apply "$patch" 2>/dev/null || git -C $wt apply --3way "$patch" || { echo "patch does not apply"; exit 9; }
VERIF_REPO=$wt timeout ${TRYMUT_TIMEOUT:-1500} python3-vt /verif/engine/check.py $prop --no-evidence "$@" 2>&1 | if [ -n "$TRYMUT_RAW" ]; then cat; else grep -E "VIOLATION|KNOWN|exit|assertion:|counterexample|job |disagree|not reprod|internal|error|witness|reach" | cut -c1-400; fi

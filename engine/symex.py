#!/usr/bin/env python3-vt
"""symex: path-wise symbolic executor for LLVM-14 IR (concrete heap, symbolic scalars, z3).

Prototype written during the design phase to measure feasibility ("engine P").
usage: symex.py module.ll entry [--max-paths N]
"""
import sys, bisect, struct, time, collections
import z3
import ir2c
from ir2c import P, tokenize, strip_meta, parse_type, parse_value, parse_tv, skip_param_attrs

sys.setrecursionlimit(100000)
PTR = ('int', 64)

# --------------------------------------------------------------------------- layout
class Layout:
    def __init__(s, m): s.m = m; s.cache = {}
    def resolve(s, t): return s.m.structs[t[1]] if t[0] == 'struct' else t
    def size_align(s, t):
        if t in s.cache: return s.cache[t]
        k = t[0]
        if k == 'int':
            n = t[1]; sz = 1 if n <= 8 else 2 if n <= 16 else 4 if n <= 32 else 8 if n <= 64 else 16
            r = (sz, sz)
        elif k == 'ptr': r = (8, 8)
        elif k == 'float': r = (4, 4)
        elif k == 'double': r = (8, 8)
        elif k == 'x86_fp80': r = (16, 16)
        elif k == 'array':
            es, ea = s.size_align(t[2]); r = (es * t[1], ea)
        elif k == 'struct': r = s.size_align(s.m.structs[t[1]])
        elif k == 'lstruct':
            off = 0; al = 1; offs = []
            for ft in t[1]:
                fs, fa = s.size_align(ft)
                if t[2]: fa = 1
                off = (off + fa - 1) // fa * fa; offs.append(off); off += fs; al = max(al, fa)
            off = (off + al - 1) // al * al
            s.cache[('offs', t)] = offs
            r = (off, al)
        elif k == 'opaque' or k == 'func' or k == 'void': r = (1, 1)
        else: raise NotImplementedError(t)
        s.cache[t] = r; return r
    def sizeof(s, t): return s.size_align(t)[0]
    def field_offsets(s, t):
        t = s.resolve(t); s.size_align(t); return s.cache[('offs', t)]

# --------------------------------------------------------------------------- values
def is_sym(v): return isinstance(v, z3.ExprRef)
def bv(v, n): return v if is_sym(v) else z3.BitVecVal(v, n)
def to_bool(v):
    if is_sym(v):
        if z3.is_bool(v): return v
        return v != 0
    return bool(v)
def from_bool(b, n):
    if is_sym(b): return z3.If(b, z3.BitVecVal(1, n), z3.BitVecVal(0, n))
    return 1 if b else 0
def sx(v, n): return v - (1 << n) if v >> (n - 1) else v

class Violation(Exception): pass        # the code under test did something it must never do
class PathEnd(Exception): pass          # path ends normally (assume false, infeasible)
class Inconclusive(Exception): pass     # budget or engine limit exceeded: never success
class Crash(Exception): pass            # harness-requested simulated process death (verif_die)
class ExitCalled(Exception):            # exit() inside verif_call_catching_exit: unwinds to the catching frame
    def __init__(s, code): s.code = code

# --------------------------------------------------------------------------- engine
class Engine:
    def __init__(s, path, max_steps=20000000, max_depth=400, known=None, hooks=()):
        s.m = ir2c.parse_module(open(path).read())
        s.L = Layout(s.m)
        s.decoded = {}
        s.stats = collections.Counter()
        s.violations = []
        s.max_steps = max_steps; s.max_depth = max_depth; s.hooks = {}
        if 'const_hash' in hooks:
            # container semantics do not depend on hash values: replace rapidhash by a constant so that symbolic keys do not make bucket indices symbolic
            def const_hash(e, args):
                n = e.concretize(args[1], 64)
                if n: e.check(e.concretize(args[0], 64), n, 'hash key read')
                return 0x9E3779B97F4A7C15
            s.hooks['@_Z18rapidhash_internalPKvmmPKm'] = const_hash
        s.known = known or []          # known findings: list of dict(assert=regex, when={name: value})
        s.fn_steps = collections.Counter()
        s.work = []; s.forker = None; s.results = []

    # ---- memory
    def reset(s):
        s.cells = {}; s.owner = {}; s.allocs = []; s.alloc_starts = []; s.brk = 0x100000
        s.fnaddr = {}; s.addrfn = {}; s.gaddr = {}
        s.solver = z3.Solver(); s.nondet_n = 0; s.trace = []; s.di = 0; s.icount = 0
        s.vfs = {}; s.files = {}; s.events = 0; s.frozen = False; s.die_after = None; s.die_base = 0; s.vfs_mtime = {}; s.vfs_clock = 1
        s.model = None; s.decided = {}; s.nondets = []; s.obs = []; s.reached = []; s.notes = []; s.depth = 0
        s.violations = []; s.clock = 0; s.errno_addr = None; s.asserts_seen = {}
        s.catch_exit = 0; s.env = {}; s.tty = 0; s.vfs_dirs = set(); s.vfs_id = {}; s.expect_fatal = False
        s.vfs['<stdout>'] = []; s.vfs['<stderr>'] = []
        a = 0x1000
        for name in s.m.funcs:
            s.fnaddr[name] = a; s.addrfn[a] = name; a += 16
        for name, g in s.m.globals.items():
            if g['alias'] is not None:
                continue
            if name.startswith('@llvm.'): continue
            s.gaddr[name] = s.alloc(s.L.sizeof(g['type']), 'global ' + name, zero=True)
            if name == '@optind': s.store(s.gaddr[name], 4, 1)
            if name in ('@stdout', '@stderr'):
                h = s.alloc(16, 'FILE ' + name, zero=True); s.store(s.gaddr[name], 8, h)
                s.files[h] = dict(path='<%s>' % name[1:], pos=0, append=True, eof=False, mode='a', id=None)
                if name == '@stdout': s.stdout_h = h
        if '@stdout' not in s.gaddr:
            s.stdout_h = s.alloc(16, 'FILE stdout', zero=True)
            s.files[s.stdout_h] = dict(path='<stdout>', pos=0, append=True, eof=False, mode='a', id=None)
        for name, g in s.m.globals.items():
            if g['alias'] is not None:
                tgt = g['alias']
                while tgt[0] == 'cast': tgt = tgt[3]
                s.fnaddr[name] = s.fnaddr[tgt[1]]
        for name, g in s.m.globals.items():
            if g.get('init') is not None and name in s.gaddr:
                s.store_typed(s.gaddr[name], g['type'], s.const(g['init'], g['type']))

    def alloc(s, size, kind, zero=False):
        a = (s.brk + 15) // 16 * 16 + 32
        s.brk = a + max(size, 1) + 32
        s.allocs.append([a, size, True, kind, zero]); s.alloc_starts.append(a)
        return a
    def find_alloc(s, addr):
        i = bisect.bisect_right(s.alloc_starts, addr) - 1
        if i < 0: return None
        al = s.allocs[i]
        return al
    def check(s, addr, size, what):
        al = s.find_alloc(addr)
        if al is None or addr + size > al[0] + al[1] or not al[2]:
            s.stats['last_bad_addr'] = addr
            raise Violation('memory-safety: %s of %d bytes %s' % (what, size, 'through a wild pointer' if al is None else ('in freed ' if not al[2] else 'out of bounds of ') + al[3].split(' @')[0]))
    def explode(s, o):
        size, val = s.cells.pop(o)
        for i in range(size):
            if is_sym(val): b = z3.simplify(z3.Extract(8 * i + 7, 8 * i, val))
            elif isinstance(val, float): b = struct.pack('<d' if size == 8 else '<f', val)[i]
            else: b = (val >> (8 * i)) & 255
            s.cells[o + i] = (1, b); s.owner[o + i] = o + i
    def store(s, addr, size, val):
        s.check(addr, size, 'store')
        c = s.cells.get(addr)
        if c is not None and c[0] == size: s.cells[addr] = (size, val); return
        ow = s.owner
        for b in range(addr, addr + size):
            o = ow.get(b)
            if o is not None and o in s.cells and s.cells[o][0] != 1: s.explode(o)
        for b in range(addr, addr + size): s.cells.pop(b, None)      # the new cell replaces every byte cell it covers
        s.cells[addr] = (size, val)
        for b in range(addr, addr + size): ow[b] = addr
    def load(s, addr, size):
        s.check(addr, size, 'load')
        c = s.cells.get(addr)
        if c is not None and c[0] == size: return c[1]
        parts = []
        sym = False
        for b in range(addr, addr + size):
            o = s.owner.get(b)
            if o is None: s.stats['uninit_bytes'] += 0 if s.find_alloc(b)[4] else 1; parts.append(0); continue
            sz, v = s.cells[o]
            if sz != 1:
                if is_sym(v): v = z3.Extract(8 * (b - o) + 7, 8 * (b - o), v)
                elif isinstance(v, float): v = struct.pack('<d' if sz == 8 else '<f', v)[b - o]
                else: v = (v >> (8 * (b - o))) & 255
            if is_sym(v): sym = True
            parts.append(v)
        if not sym:
            r = 0
            for i, p in enumerate(parts): r |= p << (8 * i)
            return r
        if len(parts) == 1: return parts[0]
        return z3.simplify(z3.Concat(*[bv(p, 8) for p in reversed(parts)]))

    def store_typed(s, addr, t, v):
        t = s.L.resolve(t); k = t[0]
        if k == 'int': s.store(addr, s.L.sizeof(t), s.norm_store(v, t))
        elif k == 'ptr': s.store(addr, 8, v)
        elif k in ('float', 'double'): s.store(addr, s.L.sizeof(t), v)
        elif k == 'array':
            es = s.L.sizeof(t[2])
            for i in range(t[1]): s.store_typed(addr + i * es, t[2], v[i] if v is not None else None)
        elif k == 'lstruct':
            offs = s.L.field_offsets(t)
            for i, ft in enumerate(t[1]): s.store_typed(addr + offs[i], ft, v[i] if v is not None else None)
        else: raise NotImplementedError(t)
    def norm_store(s, v, t):
        if v is None: return 0
        if is_sym(v) and z3.is_bool(v): return from_bool(v, 8)
        if is_sym(v) and v.size() < 8 * s.L.sizeof(t): return z3.ZeroExt(8 * s.L.sizeof(t) - v.size(), v)
        return v
    def load_typed(s, addr, t):
        t = s.L.resolve(t); k = t[0]
        if k == 'int':
            v = s.load(addr, s.L.sizeof(t))
            n = t[1]
            if n == 1: return to_bool(v) if is_sym(v) else v & 1
            if n not in (8, 16, 32, 64, 128):
                return z3.Extract(n - 1, 0, v) if is_sym(v) else v & ((1 << n) - 1)
            return v
        if k == 'ptr': return s.load(addr, 8)
        if k in ('float', 'double'):
            v = s.load(addr, s.L.sizeof(t))
            if isinstance(v, int): v = struct.unpack('<d' if k == 'double' else '<f', v.to_bytes(s.L.sizeof(t), 'little'))[0]
            return v
        if k == 'array':
            es = s.L.sizeof(t[2]); return [s.load_typed(addr + i * es, t[2]) for i in range(t[1])]
        if k == 'lstruct':
            offs = s.L.field_offsets(t); return [s.load_typed(addr + offs[i], ft) for i, ft in enumerate(t[1])]
        raise NotImplementedError(t)

    # ---- constants
    def const(s, v, t=None):
        k = v[0]
        if k == 'num':
            t = v[2]
            if t[0] == 'int':
                x = int(v[1], 16) if v[1].startswith('0x') else int(v[1]); return x & ((1 << t[1]) - 1)
            if v[1].startswith('0x'): return struct.unpack('>d', struct.pack('>Q', int(v[1][2:], 16)))[0]
            return float(v[1])
        if k == 'null': return 0
        if k in ('undef', 'zero'):
            tt = s.L.resolve(v[1])
            if tt[0] == 'array': return [s.const(('zero', tt[2])) for _ in range(tt[1])]
            if tt[0] == 'lstruct': return [s.const(('zero', ft)) for ft in tt[1]]
            if tt[0] in ('float', 'double'): return 0.0
            return 0
        if k == 'ref':
            n = v[1]
            if n in s.fnaddr: return s.fnaddr[n]
            return s.gaddr[n]
        if k == 'cstr':
            raw = v[1][2:-1]; bs = []; i = 0
            while i < len(raw):
                if raw[i] == '\\':
                    if raw[i + 1] == '\\': bs.append(92); i += 2
                    else: bs.append(int(raw[i + 1:i + 3], 16)); i += 3
                else: bs.append(ord(raw[i])); i += 1
            return bs
        if k == 'agg': return [s.const(x, tt) for tt, x in v[1]]
        if k == 'cast':
            _, op, st, sv, dt = v
            x = s.const(sv)
            if op in ('bitcast', 'inttoptr', 'ptrtoint', 'addrspacecast', 'zext'): return x
            if op == 'trunc': return x & ((1 << dt[1]) - 1)
            raise NotImplementedError(op)
        if k == 'gep':
            _, bt, ops, ty = v
            base = s.const(ops[0][1])
            return base + s.gep_offset(bt, [(t_, s.const(x)) for t_, x in ops[1:]])
        if k == 'bin':
            _, op, t_, a, b = v
            return s.binop(op, t_, s.const(a), s.const(b))
        raise NotImplementedError(v)

    def gep_offset(s, bt, idx):
        off = 0; cur = bt
        first = True
        for (t, i) in idx:
            if is_sym(i): raise NotImplementedError('symbolic gep index in constant context')
            if first:
                off += sx(i, t[1]) * s.L.sizeof(cur); first = False; continue
            rt = s.L.resolve(cur)
            if rt[0] == 'lstruct': off += s.L.field_offsets(rt)[i]; cur = rt[1][i]
            else: off += sx(i, t[1]) * s.L.sizeof(rt[2]); cur = rt[2]
        return off

    # ---- decode
    def decode(s, name):
        if name in s.decoded: return s.decoded[name]
        f = s.m.funcs[name]
        blocks = collections.OrderedDict(); cur = 'entry'; blocks[cur] = []
        body = f.body; joined = []; i = 0
        import re
        while i < len(body):
            ln = body[i].rstrip()
            if re.match(r'\s*switch ', ln) and ln.rstrip().endswith('['):
                while not body[i].strip().startswith(']'):
                    i += 1; ln += ' ' + body[i].strip()
            joined.append(ln); i += 1
        for ln in joined:
            st = ln.strip()
            if not st or st.startswith(';'): continue
            mm = re.match(r'^("(?:[^"\\]|\\.)*"|[-a-zA-Z$._0-9]+):', st)
            if mm and not ln.startswith('  '): cur = '%' + mm.group(1); blocks[cur] = []; continue
            blocks[cur].append(s.decode_inst(st))
        nun = sum(1 for (t, pn, a) in f.params if pn is None or re.match(r'%\d+$', pn))
        d = (blocks, '%' + str(nun))
        s.decoded[name] = d; return d

    def opnd(s, v):
        if v[0] == 'ref' and v[1][0] == '%': return ('l', v[1])
        return ('k', v)   # resolved lazily (needs addresses of this run)

    def decode_inst(s, line):
        p = P(strip_meta(tokenize(line))); res = None
        if p.peek()[0] == 'id' and p.peek(1)[1] == '=': res = p.next()[1]; p.next()
        k, op = p.next()
        while op in ('tail', 'musttail', 'notail'): k, op = p.next()
        if op in ir2c.BINOPS:
            while p.peek()[1] in ('nuw', 'nsw', 'exact', 'fast', 'nnan', 'ninf', 'nsz', 'arcp', 'contract', 'afn', 'reassoc'): p.next()
            t = parse_type(p); a = parse_value(p, t); p.expect(','); b = parse_value(p, t)
            return ('bin', res, op, t, s.opnd(a), s.opnd(b))
        if op in ir2c.CASTS:
            st, sv = parse_tv(p); p.expect('to'); dt = parse_type(p)
            return ('cast', res, op, st, s.opnd(sv), dt)
        if op == 'icmp':
            pred = p.next()[1]; t = parse_type(p); a = parse_value(p, t); p.expect(','); b = parse_value(p, t)
            return ('icmp', res, pred, t, s.opnd(a), s.opnd(b))
        if op == 'fcmp':
            while p.peek()[1] in ('fast', 'nnan', 'ninf', 'nsz', 'arcp', 'contract', 'afn', 'reassoc'): p.next()
            pred = p.next()[1]; t = parse_type(p); a = parse_value(p, t); p.expect(','); b = parse_value(p, t)
            return ('fcmp', res, pred, t, s.opnd(a), s.opnd(b))
        if op == 'fneg':
            while p.peek()[1] in ('fast', 'nnan', 'ninf', 'nsz', 'arcp', 'contract', 'afn', 'reassoc'): p.next()
            t, v = parse_tv(p); return ('fneg', res, s.opnd(v))
        if op == 'select':
            ct, cv = parse_tv(p); p.expect(','); t, a = parse_tv(p); p.expect(','); t2, b = parse_tv(p)
            return ('select', res, s.opnd(cv), s.opnd(a), s.opnd(b), t)
        if op == 'phi':
            t = parse_type(p); inc = {}
            while True:
                p.expect('['); v = parse_value(p, t); p.expect(','); lab = p.next()[1]; p.expect(']')
                inc[lab] = s.opnd(v)
                if not p.accept(','): break
            return ('phi', res, t, inc)
        if op == 'alloca':
            p.accept('inalloca'); t = parse_type(p); cnt = None
            if p.accept(',') and p.peek()[1] != 'align':
                ct, cv = parse_tv(p); cnt = s.opnd(cv)
            return ('alloca', res, t, cnt)
        if op == 'load':
            p.accept('atomic'); p.accept('volatile'); t = parse_type(p); p.expect(','); pt, pv = parse_tv(p)
            return ('load', res, t, s.opnd(pv))
        if op == 'store':
            p.accept('atomic'); p.accept('volatile'); t, v = parse_tv(p); p.expect(','); pt, pv = parse_tv(p)
            return ('store', t, s.opnd(v), s.opnd(pv))
        if op == 'getelementptr':
            p.accept('inbounds'); bt = parse_type(p); p.expect(','); ops = [parse_tv(p)]
            while p.accept(','): ops.append(parse_tv(p))
            return ('gep', res, bt, s.opnd(ops[0][1]), [(t, s.opnd(x)) for t, x in ops[1:]])
        if op == 'extractvalue':
            t, v = parse_tv(p); idx = []
            while p.accept(','): idx.append(int(p.next()[1]))
            return ('extractvalue', res, s.opnd(v), idx)
        if op == 'insertvalue':
            t, v = parse_tv(p); p.expect(','); et, ev = parse_tv(p); idx = []
            while p.accept(','): idx.append(int(p.next()[1]))
            return ('insertvalue', res, s.opnd(v), s.opnd(ev), idx, t)
        if op == 'call':
            while p.peek()[0] == 'word' and (p.peek()[1] in ir2c.FN_PREFIX_WORDS or p.peek()[1] in ir2c.PARAM_ATTRS or p.peek()[1] in ir2c.PARAM_ATTRS_ARG):
                w = p.next()[1]
                if w in ir2c.PARAM_ATTRS_ARG:
                    if p.accept('('): p.next(); p.expect(')')
                    else: p.next()
            rt = parse_type(p)
            if rt[0] == 'func': rt = rt[1]
            callee = parse_value(p, ('ptr', ('void',))); p.expect('(')
            args = []
            if not p.accept(')'):
                while True:
                    if p.peek()[1] == 'metadata': return ('nop',)
                    t = parse_type(p); a = skip_param_attrs(p); v = parse_value(p, t); args.append((t, s.opnd(v), a))
                    if p.accept(')'): break
                    p.expect(',')
            direct = callee[1] if callee[0] == 'ref' and callee[1][0] == '@' else None
            return ('call', res, rt, direct, s.opnd(callee), args)
        if op == 'br':
            if p.peek()[1] == 'label': p.next(); return ('br', p.next()[1])
            t, c = parse_tv(p); p.expect(','); p.expect('label'); a = p.next()[1]; p.expect(','); p.expect('label'); b = p.next()[1]
            return ('condbr', s.opnd(c), a, b)
        if op == 'switch':
            t, v = parse_tv(p); p.expect(','); p.expect('label'); d = p.next()[1]; p.expect('['); cases = []
            while not p.accept(']'):
                ct, cv = parse_tv(p); p.expect(','); p.expect('label'); cases.append((s.const(cv), p.next()[1]))
            return ('switch', s.opnd(v), d, cases, t)
        if op == 'ret':
            if p.peek()[1] == 'void': return ('ret', None)
            t, v = parse_tv(p); return ('ret', s.opnd(v))
        if op == 'unreachable': return ('unreachable',)
        if op == 'freeze':
            t, v = parse_tv(p); return ('mov', res, s.opnd(v))
        if op == 'fence': return ('nop',)
        raise NotImplementedError(line)

    # ---- arithmetic
    def binop(s, op, t, a, b):
        if t[0] in ('float', 'double'):
            if op == 'fdiv':
                import math
                if b == 0:
                    if a == 0 or a != a: return math.copysign(float('nan'), -1.0)     # x86 default NaN has the sign bit set
                    return math.copysign(float('inf'), a) * math.copysign(1.0, b)
                return a / b
            return {'fadd': a + b, 'fsub': a - b, 'fmul': a * b}[op]
        n = t[1]; M = (1 << n) - 1
        if n == 1 and (is_sym(a) or is_sym(b)):
            A, B = to_bool(a), to_bool(b)
            if op == 'and': return z3.And(A, B)
            if op == 'or': return z3.Or(A, B)
            if op in ('xor', 'add', 'sub'): return z3.Xor(A, B)
            raise NotImplementedError(op)
        if not is_sym(a) and not is_sym(b):
            if op == 'add': return (a + b) & M
            if op == 'sub': return (a - b) & M
            if op == 'mul': return (a * b) & M
            if op == 'and': return a & b
            if op == 'or': return a | b
            if op == 'xor': return a ^ b
            if op == 'shl': return (a << b) & M if b < n else 0
            if op == 'lshr': return a >> b if b < n else 0
            if op == 'ashr': return (sx(a, n) >> min(b, n - 1)) & M
            if op == 'udiv':
                if b == 0: raise Violation('division by zero')
                return a // b
            if op == 'urem':
                if b == 0: raise Violation('division by zero')
                return a % b
            if op in ('sdiv', 'srem'):
                if b == 0: raise Violation('division by zero')
                x, y = sx(a, n), sx(b, n); q = abs(x) // abs(y); q = q if (x < 0) == (y < 0) else -q
                return (q if op == 'sdiv' else x - q * y) & M
            raise NotImplementedError(op)
        A, B = bv(a, n), bv(b, n)
        if op in ('udiv', 'urem', 'sdiv', 'srem'):
            if s.sat(B == 0): raise Violation('division by zero (symbolic divisor)')
        r = {'add': lambda: A + B, 'sub': lambda: A - B, 'mul': lambda: A * B, 'and': lambda: A & B, 'or': lambda: A | B, 'xor': lambda: A ^ B,
             'shl': lambda: A << B, 'lshr': lambda: z3.LShR(A, B), 'ashr': lambda: A >> B, 'udiv': lambda: z3.UDiv(A, B), 'urem': lambda: z3.URem(A, B),
             'sdiv': lambda: A / B, 'srem': lambda: z3.SRem(A, B)}[op]()
        return z3.simplify(r)
    def icmp(s, pred, t, a, b):
        n = 64 if t[0] == 'ptr' else t[1]
        if n == 1 and (is_sym(a) or is_sym(b)):
            A, B = to_bool(a), to_bool(b)
            return z3.simplify(A == B if pred == 'eq' else z3.Xor(A, B))
        if not is_sym(a) and not is_sym(b):
            if pred[0] == 's': a, b = sx(a, n), sx(b, n)
            return int({'eq': a == b, 'ne': a != b, 'ugt': a > b, 'uge': a >= b, 'ult': a < b, 'ule': a <= b, 'sgt': a > b, 'sge': a >= b, 'slt': a < b, 'sle': a <= b}[pred])
        A, B = bv(a, n), bv(b, n)
        r = {'eq': lambda: A == B, 'ne': lambda: A != B, 'ugt': lambda: z3.UGT(A, B), 'uge': lambda: z3.UGE(A, B), 'ult': lambda: z3.ULT(A, B), 'ule': lambda: z3.ULE(A, B),
             'sgt': lambda: A > B, 'sge': lambda: A >= B, 'slt': lambda: A < B, 'sle': lambda: A <= B}[pred]()
        return z3.simplify(r)
    def cast(s, op, st, v, dt):
        if op in ('bitcast', 'addrspacecast'):
            if st[0] in ('float', 'double') or dt[0] in ('float', 'double'):
                if st[0] == dt[0]: return v
                if st[0] in ('float', 'double'): return int.from_bytes(struct.pack('<d' if st[0] == 'double' else '<f', v), 'little')
                return struct.unpack('<d' if dt[0] == 'double' else '<f', v.to_bytes(8 if dt[0] == 'double' else 4, 'little'))[0]
            return v
        if op in ('ptrtoint', 'inttoptr'):
            n = dt[1] if op == 'ptrtoint' else 64
            if is_sym(v): return z3.Extract(n - 1, 0, v) if v.size() > n else (z3.ZeroExt(n - v.size(), v) if v.size() < n else v)
            return v & ((1 << n) - 1)
        if op == 'trunc':
            n = dt[1]
            if is_sym(v):
                r = z3.simplify(z3.Extract(n - 1, 0, v))
                return (r == 1) if n == 1 else r
            return v & ((1 << n) - 1)
        if op == 'zext':
            if is_sym(v):
                if z3.is_bool(v): return from_bool(v, dt[1])
                return z3.ZeroExt(dt[1] - st[1], v)
            return v
        if op == 'sext':
            if is_sym(v):
                if z3.is_bool(v): return z3.If(v, z3.BitVecVal(-1, dt[1]), z3.BitVecVal(0, dt[1]))
                return z3.SignExt(dt[1] - st[1], v)
            return sx(v, st[1]) & ((1 << dt[1]) - 1)
        if op in ('uitofp',): return float(s.concretize(v, st[1]))
        if op in ('sitofp',): return float(sx(s.concretize(v, st[1]), st[1]))
        if op in ('fptoui', 'fptosi'): return int(v) & ((1 << dt[1]) - 1)
        if op in ('fpext', 'fptrunc'): return v
        raise NotImplementedError(op)

    # ---- solver / decisions
    def check_sat(s, c):
        """is pc ∧ c satisfiable?  returns a model or None"""
        s.stats['solver_calls'] += 1
        t0 = time.time()
        s.solver.push(); s.solver.add(c); r = s.solver.check()
        mdl = s.solver.model() if r == z3.sat else None
        s.solver.pop()
        s.stats['solver_time'] += time.time() - t0
        if r == z3.unknown: raise Inconclusive('solver returned unknown')
        return mdl
    def sat(s, c): return s.check_sat(c) is not None
    def cur_model(s):
        if s.model is None:
            s.stats['solver_calls'] += 1; t0 = time.time()
            r = s.solver.check(); s.stats['solver_time'] += time.time() - t0
            if r == z3.unknown: raise Inconclusive('solver returned unknown')
            if r != z3.sat: raise PathEnd('infeasible')
            s.model = s.solver.model()
        return s.model
    def holds_in_model(s, c):
        m = s.model
        if m is None: return None
        v = m.eval(c, model_completion=True)
        if z3.is_true(v): return True
        if z3.is_false(v): return False
        return None
    def decide(s, options_fn, con_of):
        """options_fn() -> list of (value, constraint, model) feasible alternatives; con_of(value) -> constraint.
        Decisions are recorded as plain values so that prefixes can be shipped between processes."""
        i = s.di; s.di += 1
        if i < len(s.prefix):
            val = s.prefix[i]; con = con_of(val); s.model = None
        else:
            opts = options_fn()
            if not opts: raise PathEnd('infeasible')
            val, con, mdl = opts[0]
            forker = s.forker
            for alt in opts[1:]:
                role = forker.try_fork(s) if forker is not None else None
                if role == 'child':
                    # continue this very execution with the alternative (no re-execution of the prefix)
                    val, con, mdl = alt; break
                if role != 'parent': s.work.append(s.trace + [alt[0]])       # no process available: explore it later by re-execution
            s.model = mdl
            s.stats['decisions'] += 1
        s.trace.append(val)
        if con is not None: s.solver.add(con)
        return val
    def feasible_sides(s, c):
        """-> (model_if_c_feasible or None, model_if_not_c_feasible or None), using the cached model to save a query"""
        nc = z3.Not(c)
        h = s.holds_in_model(c)
        if h is True:
            return s.model, s.check_sat(nc)
        if h is False:
            return s.check_sat(c), s.model
        mc = s.check_sat(c)
        if mc is None: return None, s.cur_model()     # pc is satisfiable, so the other side must be
        return mc, s.check_sat(nc)
    def branch(s, c):
        if not is_sym(c): return bool(c)
        c = to_bool(c)
        # a condition already decided on this path stays decided (the path condition only grows): no decision, no query
        k = c.get_id(); known = s.decided.get(k)
        if known is not None: return known[1]
        r = s.branch1(c)
        s.decided[k] = (c, r)              # keep c alive so that its id is not reused
        return r
    def branch1(s, c):
        def opts():
            mc, mn = s.feasible_sides(c); o = []
            if mc is not None: o.append((True, c, mc))
            if mn is not None: o.append((False, z3.Not(c), mn))
            return o
        return s.decide(opts, lambda v: c if v else z3.Not(c))
    def concretize(s, v, n, limit=256):
        if not is_sym(v): return v
        if z3.is_bool(v): v = from_bool(v, n)
        k = v.get_id(); known = s.decided.get(('c', k))
        if known is not None: return known[1]
        r = s.concretize1(v, n, limit)
        s.decided[('c', k)] = (v, r)       # the value chosen for this term on this path stays its value
        return r
    def concretize1(s, v, n, limit):
        def opts():
            o = []; s.solver.push()
            while len(o) <= limit:
                s.stats['solver_calls'] += 1
                if s.solver.check() != z3.sat: break
                m = s.solver.model()
                x = m.eval(v, model_completion=True).as_long(); o.append((x, v == x, None)); s.solver.add(v != x)
            s.solver.pop()
            if len(o) > limit: raise Inconclusive('more than %d feasible values to concretize' % limit)
            o.sort(key=lambda t: t[0])
            return o
        return s.decide(opts, lambda x: v == x)

    # ---- execution
    def val(s, o, fr):
        if o[0] == 'l': return fr[o[1]]
        return s.const(o[1])
    def call(s, name, args):
        if name in ('@_Z5ErrorPKcz', '@_Z7WarningPKcz', '@_Z4InfoPKcz', '@_Z5FatalPKcz'):
            bs = s.fmt(s.cstring(args[0]), args[1:])
            pre = {'@_Z5ErrorPKcz': 'ninja: error: ', '@_Z7WarningPKcz': 'ninja: warning: ', '@_Z4InfoPKcz': 'ninja: ', '@_Z5FatalPKcz': 'ninja: fatal: '}[name]
            s.vfs['<stdout>' if name == '@_Z4InfoPKcz' else '<stderr>'].extend([ord(c) for c in pre] + bs + [10])
            if name == '@_Z5FatalPKcz':
                txt = bytes(b if isinstance(b, int) else 63 for b in bs).decode('latin1')
                if s.expect_fatal: raise PathEnd('expected Fatal(): ' + txt)
                raise Violation('Fatal(): ' + txt)
            return None
        if name == '@_Z17GetProcessorCountv': return 4        # asks the operating system (cgroup files, sched_getaffinity): outside the encoding
        if name in ('@_ZN13StatusPrinter5ErrorEPKcz', '@_ZN13StatusPrinter7WarningEPKcz', '@_ZN13StatusPrinter4InfoEPKcz'):
            # (this, fmt, ...) forwards its va_list to ::Error / ::Warning / ::Info: formatted here, like those
            return s.call('@_Z5ErrorPKcz' if 'Error' in name else '@_Z7WarningPKcz' if 'Warning' in name else '@_Z4InfoPKcz', args[1:])
        f = s.m.funcs.get(name)
        if f is None and name in s.m.globals and s.m.globals[name].get('alias') is not None:
            tgt = s.m.globals[name]['alias']
            while tgt[0] == 'cast': tgt = tgt[3]
            name = tgt[1]; f = s.m.funcs.get(name)
        if f is None or f.body is None: return s.external(name, args)
        hook = s.hooks.get(name)
        if hook is not None:
            r = hook(s, args)
            if r is not NotImplemented: return r
        s.depth += 1
        if s.depth > s.max_depth: raise Violation('unbounded recursion: call depth exceeds %d in %s' % (s.max_depth, name))
        try: return s.run_function(name, f, args)
        except Violation as e:
            if not getattr(e, 'where', None):
                e.where = name; e.args = ('%s [in %s]' % (e.args[0], name[1:]),)
            raise
        finally: s.depth -= 1
    def run_function(s, name, f, args):
        blocks, entry_alias = s.decode(name)
        fr = {}
        for (t, pn, a), v in zip(f.params, args):
            if pn:
                if 'byval' in a:
                    sz = s.L.sizeof(a['byval']); cp = s.alloc(sz, 'byval'); s.memcpy(cp, v, sz); v = cp
                fr[pn] = v
        frame_allocs = []
        cur = 'entry'; prev = None
        while True:
            insts = blocks[cur]
            # phis (parallel)
            pv = []
            for ins in insts:
                if ins[0] != 'phi': break
                pv.append((ins[1], s.val(ins[3][prev], fr)))
            for r, v in pv: fr[r] = v
            if s.icount > s.max_steps: raise Inconclusive('step budget of %d instructions exhausted (in %s)' % (s.max_steps, name))
            for ins in insts:
                op = ins[0]; s.icount += 1
                if op == 'phi' or op == 'nop': continue
                if op == 'bin': fr[ins[1]] = s.binop(ins[2], ins[3], s.val(ins[4], fr), s.val(ins[5], fr))
                elif op == 'icmp': fr[ins[1]] = s.icmp(ins[2], ins[3], s.val(ins[4], fr), s.val(ins[5], fr))
                elif op == 'fcmp':
                    a = s.val(ins[4], fr); b = s.val(ins[5], fr); pr = ins[2]; nan = a != a or b != b
                    if pr in ('true', 'false'): fr[ins[1]] = int(pr == 'true')
                    elif nan: fr[ins[1]] = int(pr[0] == 'u')
                    else: fr[ins[1]] = int({'eq': a == b, 'ne': a != b, 'gt': a > b, 'ge': a >= b, 'lt': a < b, 'le': a <= b, 'rd': True, 'no': False}[pr[1:]])
                elif op == 'fneg': fr[ins[1]] = -s.val(ins[2], fr)
                elif op == 'load':
                    a = s.val(ins[3], fr)
                    if is_sym(a) and ins[2][0] == 'int': fr[ins[1]] = s.sym_load(a, ins[2])
                    else:
                        a = s.concretize(a, 64); fr[ins[1]] = s.load_typed(a, ins[2])
                elif op == 'store':
                    a = s.concretize(s.val(ins[3], fr), 64); s.store_typed(a, ins[1], s.val(ins[2], fr))
                elif op == 'gep':
                    base = s.val(ins[3], fr); cur_t = ins[2]; off = 0; first = True
                    for (t, o) in ins[4]:
                        i = s.val(o, fr)
                        if first:
                            scale = s.L.sizeof(cur_t); first = False
                        else:
                            rt = s.L.resolve(cur_t)
                            if rt[0] == 'lstruct': off += s.L.field_offsets(rt)[i]; cur_t = rt[1][i]; continue
                            scale = s.L.sizeof(rt[2]); cur_t = rt[2]
                        if is_sym(i):
                            i64 = z3.SignExt(64 - t[1], i) if t[1] < 64 else i
                            off = off + i64 * scale
                        else: off = off + sx(i, t[1]) * scale
                    if is_sym(off) or is_sym(base): fr[ins[1]] = z3.simplify(bv(base, 64) + bv(off, 64))
                    else: fr[ins[1]] = (base + off) & 0xFFFFFFFFFFFFFFFF
                elif op == 'cast': fr[ins[1]] = s.cast(ins[2], ins[3], s.val(ins[4], fr), ins[5])
                elif op == 'select':
                    c = s.val(ins[2], fr); a = s.val(ins[3], fr); b = s.val(ins[4], fr)
                    if is_sym(c):
                        t = ins[5]
                        if t[0] in ('int', 'ptr') and not isinstance(a, list):
                            n = 64 if t[0] == 'ptr' else t[1]
                            if n == 1: fr[ins[1]] = z3.If(to_bool(c), to_bool(a) if is_sym(a) else z3.BoolVal(bool(a)), to_bool(b) if is_sym(b) else z3.BoolVal(bool(b)))
                            else: fr[ins[1]] = z3.If(to_bool(c), bv(a, n), bv(b, n))
                        else: fr[ins[1]] = a if s.branch(c) else b
                    else: fr[ins[1]] = a if c else b
                elif op == 'call':
                    args = [s.val(o, fr) for (t, o, a) in ins[5]]
                    if ins[3] is not None: tgt = ins[3]
                    else:
                        fp = s.concretize(s.val(ins[4], fr), 64)
                        tgt = s.addrfn.get(fp)
                        if tgt is None: raise Violation('indirect call to non-function address %#x' % fp)
                    if tgt.startswith('@llvm.'): r = s.intrinsic(tgt[1:], args, ins)
                    else: r = s.call(tgt, args)
                    if ins[1] is not None: fr[ins[1]] = r
                elif op == 'alloca':
                    n = 1 if ins[3] is None else s.concretize(s.val(ins[3], fr), 64)
                    a = s.alloc(s.L.sizeof(ins[2]) * n, 'alloca in ' + name); frame_allocs.append(a); fr[ins[1]] = a
                elif op == 'br': prev, cur = (cur if cur != 'entry' else entry_alias), ins[1]; break
                elif op == 'condbr':
                    prev = cur if cur != 'entry' else entry_alias
                    cur = ins[2] if s.branch(s.val(ins[1], fr)) else ins[3]; break
                elif op == 'switch':
                    v = s.val(ins[1], fr); prev = cur if cur != 'entry' else entry_alias
                    if is_sym(v):
                        groups = collections.OrderedDict()
                        for cv, lab in ins[3]: groups.setdefault(lab, []).append(cv)
                        dflt = ins[2]
                        def con_of(lab, v=v, groups=groups, dflt=dflt):
                            if lab in groups and lab != dflt: return z3.Or(*[v == x for x in groups[lab]])
                            allc = [v == x for l2, cvs in groups.items() if l2 != dflt for x in cvs]
                            return z3.Not(z3.Or(*allc)) if allc else z3.BoolVal(True)
                        def opts(v=v, groups=groups, dflt=dflt, con_of=con_of):
                            o = []
                            for lab in list(groups) + [dflt]:
                                if lab == dflt and lab in groups and o and o[-1][0] == dflt: continue
                                if any(x[0] == lab for x in o): continue
                                c = con_of(lab); mdl = s.check_sat(c)
                                if mdl is not None: o.append((lab, c, mdl))
                            return o
                        cur = s.decide(opts, con_of)
                    else:
                        cur = ins[2]
                        for cv, lab in ins[3]:
                            if cv == v: cur = lab; break
                    break
                elif op == 'ret':
                    for a in frame_allocs: s.find_alloc(a)[2] = False
                    return None if ins[1] is None else s.val(ins[1], fr)
                elif op == 'mov': fr[ins[1]] = s.val(ins[2], fr)
                elif op == 'extractvalue':
                    v = s.val(ins[2], fr)
                    for i in ins[3]: v = v[i]
                    fr[ins[1]] = v
                elif op == 'insertvalue':
                    import copy
                    v = copy.deepcopy(s.val(ins[2], fr)) if not is_sym(s.val(ins[2], fr)) else s.val(ins[2], fr)
                    if not isinstance(v, list): v = s.const(('zero', ins[5]))
                    x = v
                    for i in ins[4][:-1]: x = x[i]
                    x[ins[4][-1]] = s.val(ins[3], fr); fr[ins[1]] = v
                elif op == 'unreachable': raise Violation('llvm unreachable executed in ' + name)
                else: raise NotImplementedError(op)
            else:
                raise RuntimeError('block without terminator')

    def sym_load(s, a, t):
        # load through a symbolic address: locate the object via one model, prove in-bounds, then build an If-chain over offsets
        a = z3.simplify(a)
        w = s.cur_model().eval(a, model_completion=True).as_long()
        al = s.find_alloc(w); size = s.L.sizeof(t)
        if al is None or not al[2]: raise Violation('memory-safety: load through symbolic pointer may hit no object (%#x)' % w)
        lo, hi = al[0], al[0] + al[1] - size
        if s.sat(z3.Or(z3.ULT(a, lo), z3.UGT(a, hi))):
            # either a genuinely unbounded index, or a pointer selected among a few objects: enumerate (bounded) and fork
            try: w = s.concretize(a, 64, limit=16)
            except Inconclusive: raise Violation('memory-safety: symbolic load may fall outside %s' % al[3])
            return s.load_typed(w, t)
        if al[1] > 4096: return s.load_typed(s.concretize(a, 64), t)
        groups = collections.OrderedDict()
        for off in range(0, al[1] - size + 1):
            v = s.load(lo + off, size)
            key = v if not is_sym(v) else ('sym', off)
            groups.setdefault(key, (v, []))[1].append(lo + off)
        items = list(groups.values())
        n = 8 * size
        expr = bv(items[-1][0], n)
        for v, addrs in reversed(items[:-1]):
            expr = z3.If(z3.Or(*[a == x for x in addrs]), bv(v, n), expr)
        s.stats['sym_loads'] += 1
        r = z3.simplify(expr)
        if t[1] == 1: return r == 1
        return r if t[1] == n else z3.Extract(t[1] - 1, 0, r)

    def memcpy(s, d, sr, n):
        if n == 0: return
        s.check(d, n, 'memcpy store'); s.check(sr, n, 'memcpy load')
        # copy cell-wise where aligned cells exist, else bytewise
        vals = []; b = sr
        while b < sr + n:
            c = s.cells.get(b)
            if c is not None and b + c[0] <= sr + n and s.owner.get(b) == b: vals.append((b - sr, c[0], c[1])); b += c[0]
            else: vals.append((b - sr, 1, s.load(b, 1))); b += 1
        for off, sz, v in vals: s.store(d + off, sz, v)

    def intrinsic(s, name, args, ins):
        if name.startswith(('llvm.lifetime', 'llvm.dbg', 'llvm.experimental.noalias', 'llvm.prefetch', 'llvm.assume', 'llvm.invariant', 'llvm.donothing')): return None
        if name.startswith(('llvm.memcpy', 'llvm.memmove')):
            n = s.concretize(args[2], 64); d = s.concretize(args[0], 64); sr = s.concretize(args[1], 64); s.memcpy(d, sr, n); return None
        if name.startswith('llvm.memset'):
            n = s.concretize(args[2], 64); d = s.concretize(args[0], 64); v = args[1]
            if n: s.check(d, n, 'memset')
            i = 0
            if not is_sym(v):
                w = int.from_bytes(bytes([v]) * 8, 'little')
                while n - i >= 8 and (d + i) % 8 == 0: s.store(d + i, 8, w); i += 8
            while i < n: s.store(d + i, 1, v); i += 1
            return None
        t = ins[5][0][0]; n = t[1] if t[0] == 'int' else 64
        if name.startswith(('llvm.umax', 'llvm.umin', 'llvm.smax', 'llvm.smin')):
            pred = {'umax': 'ugt', 'umin': 'ult', 'smax': 'sgt', 'smin': 'slt'}[name.split('.')[1]]
            c = s.icmp(pred, t, args[0], args[1])
            if is_sym(c): return z3.If(c, bv(args[0], n), bv(args[1], n))
            return args[0] if c else args[1]
        if name.startswith(('llvm.usub.sat', 'llvm.uadd.sat')):
            a, b = [s.concretize(x, n) for x in args[:2]]; M = (1 << n) - 1
            return max(0, a - b) if 'usub' in name else min(M, a + b)
        if name.startswith('llvm.expect'): return args[0]
        if name.startswith('llvm.abs'):
            v = s.concretize(args[0], n); return abs(sx(v, n)) & ((1 << n) - 1)
        if name.startswith('llvm.bswap'):
            v = s.concretize(args[0], n); return int.from_bytes(v.to_bytes(n // 8, 'little'), 'big')
        if name.startswith('llvm.ctlz'):
            v = s.concretize(args[0], n); return n - v.bit_length()
        if name.startswith('llvm.cttz'):
            v = s.concretize(args[0], n); return n if v == 0 else (v & -v).bit_length() - 1
        if name.startswith('llvm.ctpop'):
            v = s.concretize(args[0], n); return bin(v).count('1')
        if name.startswith(('llvm.fshl', 'llvm.fshr')):
            a, b, c = [s.concretize(x, n) for x in args]; c %= n; M = (1 << n) - 1
            if c == 0: return a if 'fshl' in name else b
            return ((a << c) | (b >> (n - c))) & M if 'fshl' in name else ((b >> c) | (a << (n - c))) & M
        if '.with.overflow' in name:
            op = name.split('.')[1]; a, b = [s.concretize(x, n) for x in args[:2]]; M = (1 << n) - 1
            if op[0] == 'u':
                r = {'uadd': a + b, 'usub': a - b, 'umul': a * b}[op]; return [r & M, int(r != (r & M))]
            x, y = sx(a, n), sx(b, n); r = {'sadd': x + y, 'ssub': x - y, 'smul': x * y}[op]
            return [r & M, int(not (-(1 << (n - 1)) <= r < (1 << (n - 1))))]
        if name.startswith('llvm.load.relative'):
            base = s.concretize(args[0], 64); off = s.concretize(args[1], 64)
            rel = s.load((base + off) & 0xFFFFFFFFFFFFFFFF, 4)
            return (base + sx(rel, 32)) & 0xFFFFFFFFFFFFFFFF
        if name.startswith('llvm.trap'): raise Violation('llvm.trap')
        raise NotImplementedError(name)

    def cstring(s, a, limit=1 << 20):
        out = []; a = s.concretize(a, 64)
        while len(out) < limit:
            b = s.load(a + len(out), 1)
            if is_sym(b):
                b = s.concretize(b, 8)
            if b == 0: break
            out.append(b)
        return bytes(out).decode('latin1')
    def cbytes(s, a, n): return [s.load(a + i, 1) for i in range(n)]
    def put_cstring(s, text, kind='cstr'):
        bs = text.encode('latin1') if isinstance(text, str) else bytes(text)
        a = s.alloc(len(bs) + 1, kind)
        for i, b in enumerate(bs): s.store(a + i, 1, b)
        s.store(a + len(bs), 1, 0); return a

    def eval_in(s, mdl, v):
        if not is_sym(v): return v
        r = mdl.eval(v, model_completion=True)
        if z3.is_bool(r): return 1 if z3.is_true(r) else 0
        return r.as_long()
    def vector_of(s, mdl):
        return [(name, sx(s.eval_in(mdl, var), 64)) for name, var in s.nondets]
    def known_pred(s, kf):
        """z3 predicate 'this counterexample is the known finding kf' over the named nondets of this path (None if it cannot match)"""
        conj = []
        byname = {}
        for name, var in s.nondets: byname.setdefault(name, []).append(var)
        for name, want in kf.get('when', {}).items():
            idx = 0
            if '#' in name: name, idx = name.split('#'); idx = int(idx)
            vs = byname.get(name)
            if not vs or idx >= len(vs): return None
            if isinstance(want, list): conj.append(z3.Or(*[vs[idx] == w for w in want]))
            else: conj.append(vs[idx] == want)
        for name, vals in kf.get('any', {}).items():          # some occurrence of the named nondet has one of these values
            vs = byname.get(name)
            if not vs: return None
            conj.append(z3.Or(*[v == w for v in vs for w in vals]))
        for name, (first, second) in kf.get('adjacent', {}).items():   # two consecutive occurrences with values in first / second
            vs = byname.get(name)
            if not vs or len(vs) < 2: return None
            conj.append(z3.Or(*[z3.And(z3.Or(*[vs[i] == w for w in first]), z3.Or(*[vs[i + 1] == w for w in second])) for i in range(len(vs) - 1)]))
        for rd in kf.get('rounds', []):                           # some round r: occurrence r*stride+off of the named nondet == val for every (off, val)
            vs = byname.get(rd['name']); st = rd['stride']
            if not vs: return None
            alts = []
            for r in range(0, len(vs) // st + 1):
                if all(r * st + int(off) < len(vs) for off in rd['when']):
                    alts.append(z3.And(*[vs[r * st + int(off)] == val for off, val in rd['when'].items()]))
            if not alts: return None
            conj.append(z3.Or(*alts))
        return z3.And(*conj) if conj else z3.BoolVal(True)
    def report(s, msg, cond_false=None):
        """record a violation: msg, with cond_false the z3 condition under which it happens (None = unconditionally on this path)"""
        import re
        kfs = [k for k in s.known if re.search(k['assert'], msg)]
        preds = [(k, s.known_pred(k)) for k in kfs]; preds = [(k, p) for k, p in preds if p is not None]
        base = cond_false if cond_false is not None else z3.BoolVal(True)
        fresh = s.check_sat(z3.And(base, *[z3.Not(p) for k, p in preds])) if preds else s.check_sat(base)
        if fresh is not None:
            s.violations.append(dict(msg=msg, known=None, vector=s.vector_of(fresh), trace=list(s.trace), notes=list(s.notes)))
            return True
        any_known = False
        for k, p in preds:
            mdl = s.check_sat(z3.And(base, p))
            if mdl is not None:
                s.violations.append(dict(msg=msg, known=k['id'], vector=s.vector_of(mdl), trace=list(s.trace), notes=list(s.notes))); any_known = True
        return any_known

    def external(s, name, args):
        n = name[1:]
        r = s.vfs_call(n, args)
        if r is not NotImplemented: return r
        if n in ('_Znwm', '_Znam', 'malloc', '_ZnwmRKSt9nothrow_t', '_ZnamRKSt9nothrow_t'):
            sz = s.concretize(args[0], 64)
            if sz > (1 << 32): raise Violation('allocation of %d bytes (std::bad_alloc / bad_array_new_length)' % sz)
            return s.alloc(sz, 'heap')
        if n == 'calloc':
            sz = s.concretize(args[0], 64) * s.concretize(args[1], 64); return s.alloc(sz, 'heap', zero=True)
        if n == 'realloc':
            old = args[0]; sz = s.concretize(args[1], 64); a = s.alloc(sz, 'heap')
            if old:
                al = s.find_alloc(old); s.memcpy(a, old, min(sz, al[1])); al[2] = False
            return a
        if n in ('_ZdlPv', '_ZdaPv', '_ZdlPvm', '_ZdaPvm', 'free'):
            a = s.concretize(args[0], 64)
            if a == 0: return None
            al = s.find_alloc(a)
            if al is None or al[0] != a or not al[2]: raise Violation('memory-safety: invalid or double free at %#x' % a)
            al[2] = False; return None
        if n == '__CPROVER_assume':
            c = args[0]
            if is_sym(c):
                c = to_bool(c)
                h = s.holds_in_model(c)
                if h is not True:
                    mdl = s.check_sat(c)
                    if mdl is None: raise PathEnd('assume false')
                    s.model = mdl
                s.solver.add(c)
            elif not c: raise PathEnd('assume false')
            return None
        if n == '__CPROVER_assert':
            c = args[0]; msg = s.cstring(args[1]); s.stats['asserts'] += 1; s.asserts_seen[msg] = s.asserts_seen.get(msg, 0) + 1
            if is_sym(c):
                c = to_bool(c)
                if s.sat(z3.Not(c)):
                    s.report(msg, z3.Not(c))
                    if not s.sat(c): raise PathEnd('assert failed on the whole path')
                    s.solver.add(c); s.model = None
            elif not c:
                s.report(msg); raise PathEnd('assert failed concretely')
            return None
        if n == 'verif_nondet':
            nm = s.cstring(args[0]); lo = sx(s.concretize(args[1], 64), 64); hi = sx(s.concretize(args[2], 64), 64)
            s.nondet_n += 1
            if lo == hi: s.nondets.append((nm, z3.BitVecVal(lo, 64))); return lo & 0xFFFFFFFFFFFFFFFF
            v = z3.BitVec('%s!%d' % (nm, s.nondet_n), 64)
            s.nondets.append((nm, v))
            if lo >= 0 and hi < (1 << 62):
                # keep the term narrow: w low bits free, rest zero
                w = max(1, hi.bit_length()); 
                nv = z3.BitVec('%s!%d' % (nm, s.nondet_n), w); s.nondets[-1] = (nm, z3.ZeroExt(64 - w, nv)); v = s.nondets[-1][1]
                if lo > 0: s.solver.add(z3.UGE(nv, lo))
                if hi != (1 << w) - 1: s.solver.add(z3.ULE(nv, hi))
            else:
                s.solver.add(v >= lo, v <= hi)
            s.model = None
            return v
        if n.startswith('nondet_'):
            w = {'nondet_int': 32, 'nondet_uint': 32, 'nondet_long': 64, 'nondet_ulong': 64, 'nondet_char': 8, 'nondet_uchar': 8, 'nondet_bool': 8}[n]
            s.nondet_n += 1; v = z3.BitVec('%s!%d' % (n, s.nondet_n), w); s.nondets.append((n, z3.SignExt(64 - w, v) if w < 64 else v)); return v
        if n == 'verif_concretize': return s.concretize(args[0], 64)      # fork per feasible value: what follows is concrete
        if n == 'verif_reach': s.reached.append(s.cstring(args[0])); return None
        if n == 'verif_obs': s.obs.append(args[0]); return None
        if n == 'verif_note': s.notes.append(s.cstring(args[0])); return None
        if n == 'verif_expect_fatal': s.expect_fatal = bool(args[0]); return None
        if n == 'ir2c_global_ctors':
            g = s.m.globals.get('@llvm.global_ctors')
            if g:
                for _, item in g['init'][1]:
                    fn = item[1][1][1]
                    while fn[0] == 'cast': fn = fn[3]
                    s.call(fn[1], [])
            return None
        if n in ('__cxa_guard_acquire',): return int(s.load(args[0], 1) == 0)
        if n in ('__cxa_guard_release',): s.store(args[0], 1, 1); return None
        if n in ('__cxa_atexit', 'atexit'): return 0
        if n == 'verif_call_catching_exit':
            # run fn(arg); an exit(code) inside it flushes stdio (as exit does) and unwinds to here.  -> code, or -1 if fn returned
            tgt = s.addrfn.get(s.concretize(args[0], 64))
            if tgt is None: raise Violation('verif_call_catching_exit: not a function')
            s.catch_exit += 1; d0 = s.depth
            try: s.call(tgt, [args[1]]); return 0xFFFFFFFFFFFFFFFF
            except ExitCalled as e: s.depth = d0; return e.code & 0xFFFFFFFF
            finally: s.catch_exit -= 1
        if n in ('exit', '_exit') and s.catch_exit:
            if n == 'exit':
                for f in list(s.files.values()): s.vfs_flush(f)
            raise ExitCalled(sx(s.concretize(args[0], 32), 32))
        if n in ('abort', 'exit', '_exit', '__assert_fail', '__cxa_pure_virtual', '_ZSt9terminatev'):
            raise Violation(n + '() called')
        if n == 'strlen':
            a = s.concretize(args[0], 64); k = 0
            while True:
                b = s.load(a + k, 1)
                if is_sym(b):
                    if s.branch(b == 0): return k
                elif b == 0: return k
                k += 1
        if n in ('memcmp', 'bcmp'):
            a, b, ln = s.concretize(args[0], 64), s.concretize(args[1], 64), s.concretize(args[2], 64)
            if ln: s.check(a, ln, 'memcmp'); s.check(b, ln, 'memcmp')
            for i in range(ln):
                x, y = s.load(a + i, 1), s.load(b + i, 1)
                if is_sym(x) or is_sym(y):
                    if s.branch(bv(x, 8) != bv(y, 8)): return 1 if s.branch(z3.UGT(bv(x, 8), bv(y, 8))) else 0xFFFFFFFF
                elif x != y: return 1 if x > y else 0xFFFFFFFF
            return 0
        if n in ('strcmp', 'strncmp'):
            a, b = s.concretize(args[0], 64), s.concretize(args[1], 64); lim = s.concretize(args[2], 64) if n == 'strncmp' else 1 << 30; i = 0
            while i < lim:
                x, y = s.load(a + i, 1), s.load(b + i, 1)
                if is_sym(x) or is_sym(y):
                    if s.branch(bv(x, 8) != bv(y, 8)): return 1 if s.branch(z3.UGT(bv(x, 8), bv(y, 8))) else 0xFFFFFFFF
                    if s.branch(bv(x, 8) == 0): return 0
                else:
                    if x != y: return 1 if x > y else 0xFFFFFFFF
                    if x == 0: return 0
                i += 1
            return 0
        if n == 'memchr':
            a, c, ln = s.concretize(args[0], 64), args[1], s.concretize(args[2], 64)
            c8 = (c & 255) if not is_sym(c) else z3.Extract(7, 0, c)
            for i in range(ln):
                x = s.load(a + i, 1)
                if s.branch(s.icmp('eq', ('int', 8), x, c8)): return a + i
            return 0
        if n in ('strchr', 'strrchr'):
            a = s.concretize(args[0], 64); c = s.concretize(args[1], 32) & 255; i = 0; last = 0
            while True:
                x = s.load(a + i, 1)
                if s.branch(s.icmp('eq', ('int', 8), x, c)):
                    if n == 'strchr' or c == 0: return a + i
                    last = a + i
                elif s.branch(s.icmp('eq', ('int', 8), x, 0)): return last
                i += 1
        if n in ('strpbrk', 'strcspn', 'strspn'):
            a = s.concretize(args[0], 64); acc = [ord(c) for c in s.cstring(args[1])]; i = 0
            while True:
                x = s.load(a + i, 1)
                if s.branch(s.icmp('eq', ('int', 8), x, 0)): return 0 if n == 'strpbrk' else i
                hit = s.branch(z3.Or(*[x == c for c in acc])) if is_sym(x) else (x in acc)
                if n == 'strspn':
                    if not hit: return i
                elif hit: return a + i if n == 'strpbrk' else i
                i += 1
        if n == 'strstr':
            h = s.cstring(args[0]); nd = s.cstring(args[1]); k = h.find(nd); return 0 if k < 0 else args[0] + k
        if n == 'strdup': return s.put_cstring(s.cstring(args[0]), 'heap')
        # a few more libc routines a change to ninja might plausibly start using (concrete strings only)
        if n == 'strnlen': t = s.cstring(args[0]); return min(len(t), s.concretize(args[1], 64))
        if n in ('strncpy', 'stpcpy', 'strcat', 'strncat'):
            t = s.cstring(args[1]).encode('latin1')
            if n == 'strncpy':
                k = s.concretize(args[2], 64); bs = (t + b'\0' * k)[:k]
                for i, ch in enumerate(bs): s.store(args[0] + i, 1, ch)
                return args[0]
            base = args[0] + (len(s.cstring(args[0])) if n in ('strcat', 'strncat') else 0)
            if n == 'strncat': t = t[:s.concretize(args[2], 64)]
            for i, ch in enumerate(t + b'\0'): s.store(base + i, 1, ch)
            return base + len(t) if n == 'stpcpy' else args[0]
        if n == 'memrchr':
            a = s.concretize(args[0], 64); c = s.concretize(args[1], 32) & 255; k = s.concretize(args[2], 64)
            for i in range(k - 1, -1, -1):
                if s.concretize(s.load(a + i, 1), 8) == c: return a + i
            return 0
        if n in ('usleep', 'nanosleep', 'sched_yield', 'posix_fadvise', 'madvise', 'sync'): return 0
        if n in ('clock_gettime', 'gettimeofday'):
            s.clock += 1000000; ptr = args[1] if n == 'clock_gettime' else args[0]
            if ptr: s.store(ptr, 8, s.clock // 1000000000 + 1700000000); s.store(ptr + 8, 8, (s.clock % 1000000000) if n == 'clock_gettime' else (s.clock % 1000000000) // 1000)
            return 0
        if n in ('strcpy',):
            t = s.cstring(args[1])
            for i, ch in enumerate(t.encode('latin1') + b'\0'): s.store(args[0] + i, 1, ch)
            return args[0]
        if n == 'strerror': return s.put_cstring({2: 'No such file or directory', 13: 'Permission denied'}.get(s.concretize(args[0], 32), 'Unknown error'))
        if n in ('getenv', 'secure_getenv'):
            v = s.env.get(s.cstring(args[0])); return 0 if v is None else s.put_cstring(v)
        if n == 'setenv': s.env[s.cstring(args[0])] = s.cstring(args[1]); return 0
        if n == 'unsetenv': s.env.pop(s.cstring(args[0]), None); return 0
        if n in ('isatty',): return s.tty if s.concretize(args[0], 32) == 1 else 0
        if n == 'verif_set_tty': s.tty = int(bool(s.concretize(args[0], 32))); s.tty_cols = s.concretize(args[1], 32); return None
        if n in ('getpid',): return 4242
        if n in ('toupper', 'tolower'):
            c = s.concretize(args[0], 32)
            if n == 'toupper' and 97 <= c <= 122: return c - 32
            if n == 'tolower' and 65 <= c <= 90: return c + 32
            return c
        if n in ('isalpha', 'isdigit', 'isspace', 'isalnum'):
            c = chr(s.concretize(args[0], 32) & 255); return int({'isalpha': c.isalpha() and c.isascii(), 'isdigit': c in '0123456789', 'isspace': c in ' \t\n\r\v\f', 'isalnum': c.isalnum() and c.isascii()}[n])
        if n.startswith('_ZSt') and 'throw' in n: raise Violation('C++ exception: ' + n)
        if n in ('__cxa_throw', '__cxa_allocate_exception', '_ZSt17__throw_bad_allocv'): raise Violation('C++ exception thrown (' + n + ')')
        if n in ('_ZNSt8ios_base4InitC1Ev', '_ZNSt8ios_base4InitD1Ev'): return None
        if n == '_ZSt16__ostream_insertIcSt11char_traitsIcEERSt13basic_ostreamIT_T0_ES6_PKS3_l':     # std::cout << text (missing_deps.cc)
            ptr = s.concretize(args[1], 64); ln = s.concretize(args[2], 64)
            s.vfs_write(s.stdout_h, [s.load(ptr + i, 1) for i in range(ln)]); return args[0]
        if n in ('_ZNSo9_M_insertImEERSoT_', '_ZNSo9_M_insertIlEERSoT_', '_ZNSolsEi', '_ZNSolsEm', '_ZNSolsEl', '_ZNSolsEj'):
            v = s.concretize(args[1], 64); signed = n in ('_ZNSo9_M_insertIlEERSoT_', '_ZNSolsEi', '_ZNSolsEl')
            if n in ('_ZNSolsEi', '_ZNSolsEj'): v &= 0xFFFFFFFF
            if signed: v = sx(v, 32 if n == '_ZNSolsEi' else 64)
            s.vfs_write(s.stdout_h, [ord(c) for c in str(v)]); return args[0]
        if n in ('_ZNSo5flushEv', '_ZSt5flushIcSt11char_traitsIcEERSt13basic_ostreamIT_T0_ES6_'): return args[0]
        if n == '_ZNSt6chrono3_V212steady_clock3nowEv': s.clock += 1000000; return s.clock
        if n in ('time',): s.clock += 1000000; return s.clock // 1000000000 + 1700000000
        if n == 'getopt' or n == 'getopt_long': return 0xFFFFFFFF
        if n == 'ioctl':
            if s.tty and s.concretize(args[1], 64) == 0x5413 and len(args) > 2:      # TIOCGWINSZ on the pretended terminal
                ws = s.concretize(args[2], 64); s.store(ws, 2, 24); s.store(ws + 2, 2, getattr(s, 'tty_cols', 0)); s.store(ws + 4, 2, 0); s.store(ws + 6, 2, 0); return 0
            return 0xFFFFFFFF
        if n in ('signal', 'sigaction', 'sigemptyset', 'sigaddset', 'sigprocmask', 'fcntl', 'chdir', 'pthread_sigmask'):
            return 0
        if n in ('strtol', 'strtoll', 'strtoul', 'strtoull', 'atoi', 'atol'):
            # byte-wise, forking on the class of each symbolic byte (space / sign / digit / other); the value stays a term
            addr = s.concretize(args[0], 64); base = s.concretize(args[2], 32) if len(args) > 2 else 10
            def is_(b, pred_c, pred_s):
                if is_sym(b): return s.branch(pred_s(b))
                return pred_c(b)
            i = 0
            while is_(s.load(addr + i, 1), lambda b: b in (32, 9, 10, 11, 12, 13), lambda b: z3.Or(b == 32, z3.And(z3.UGE(b, 9), z3.ULE(b, 13)))): i += 1
            neg = False; b = s.load(addr + i, 1)
            if is_(b, lambda b: b == 45, lambda b: b == 45): neg = True; i += 1
            elif is_(b, lambda b: b == 43, lambda b: b == 43): i += 1
            if base in (0, 16):
                b0 = s.load(addr + i, 1)
                if is_(b0, lambda b: b == 48, lambda b: b == 48):
                    b1 = s.load(addr + i + 1, 1)
                    if is_(b1, lambda b: b in (120, 88), lambda b: z3.Or(b == 120, b == 88)):
                        b2 = s.load(addr + i + 2, 1)
                        if is_(b2, lambda b: chr(b) in '0123456789abcdefABCDEF', lambda b: z3.Or(z3.And(z3.UGE(b, 48), z3.ULE(b, 57)), z3.And(z3.UGE(b | 32, 97), z3.ULE(b | 32, 102)))): i += 2; base = 16
                    if base == 0: base = 8
                elif base == 0: base = 10
            val = 0; start = i; ndig = 0
            while True:
                b = s.load(addr + i, 1)
                if base <= 10:
                    ok = is_(b, lambda b: 48 <= b < 48 + base, lambda b: z3.And(z3.UGE(b, 48), z3.ULT(b, 48 + base)))
                    dig = (z3.ZeroExt(56, b) - 48) if is_sym(b) else b - 48
                else:
                    ok = is_(b, lambda b: chr(b).lower() in '0123456789abcdefghijklmnopqrstuvwxyz'[:base], lambda b: z3.Or(z3.And(z3.UGE(b, 48), z3.ULE(b, 57)), z3.And(z3.UGE(b | 32, 97), z3.ULT(b | 32, 97 + base - 10))))
                    if is_sym(b): b64 = z3.ZeroExt(56, b); dig = z3.If(z3.ULE(b64, 57), b64 - 48, (b64 | 32) - 87)
                    else: dig = b - 48 if b <= 57 else (b | 32) - 87
                if not ok: break
                val = val * base + dig; i += 1; ndig += 1
                if ndig > 18 and not is_sym(val) and n != 'atoi': pass
            if ndig == 0: i = 0 if start == i and not neg else 0
            if len(args) > 1 and n.startswith('strto') and args[1]: s.store(s.concretize(args[1], 64), 8, addr + i)
            bits = 32 if n == 'atoi' else 64
            if is_sym(val):
                if neg: val = -val
                val = z3.simplify(val)
                return z3.Extract(31, 0, val) if bits == 32 else val
            if neg: val = -val
            if n in ('strtol', 'strtoll', 'atol'):
                if val > (1 << 63) - 1: val = (1 << 63) - 1; s.set_errno(34)
                if val < -(1 << 63): val = -(1 << 63); s.set_errno(34)
            elif n in ('strtoul', 'strtoull') and abs(val) > (1 << 64) - 1: val = (1 << 64) - 1; s.set_errno(34)
            return val & ((1 << bits) - 1)
        if n in ('strtod', 'atof'):
            import re
            txt = s.cstring(args[0]); mm = re.match(r'\s*[-+]?(\d+\.?\d*([eE][-+]?\d+)?|\.\d+([eE][-+]?\d+)?)', txt)
            if len(args) > 1 and args[1]: s.store(args[1], 8, args[0] + (mm.end() if mm else 0))
            return float(mm.group(0)) if mm else 0.0
        if n == '__errno_location':
            if s.errno_addr is None: s.errno_addr = s.alloc(4, 'errno', zero=True)
            return s.errno_addr
        if n in ('getloadavg',): return 0xFFFFFFFF
        if n in ('sysconf', 'get_nprocs'): return 4
        if n in ('sched_getaffinity',): return 0xFFFFFFFF
        if n in ('getcwd',):
            for i, ch in enumerate(b'/work\0'): s.store(args[0] + i, 1, ch)
            return args[0]
        raise NotImplementedError('external ' + n)

    # ---- in-memory file system behind stdio / unistd
    def set_errno(s, v):
        a = s.external('@__errno_location', []); s.store(a, 4, v)
    def fmt(s, f, args):
        """printf-style formatting; f is a python str, args are engine values; returns list of byte values (ints or 8-bit terms)"""
        out = []; i = 0; ai = 0
        while i < len(f):
            c = f[i]
            if c != '%': out.append(ord(c)); i += 1; continue
            i += 1; flags = ''
            while f[i] in '-+ #0': flags += f[i]; i += 1
            width = ''
            if f[i] == '*': width = str(sx(s.concretize(args[ai], 32), 32)); ai += 1; i += 1
            while f[i].isdigit(): width += f[i]; i += 1
            prec = None
            if f[i] == '.':
                i += 1; prec = ''
                if f[i] == '*': prec = str(sx(s.concretize(args[ai], 32), 32)); ai += 1; i += 1
                while f[i].isdigit(): prec += f[i]; i += 1
                prec = int(prec or 0)
            ln = ''
            while f[i] in 'lhzjt': ln += f[i]; i += 1
            cv = f[i]; i += 1
            if cv == '%': out.append(37); continue
            a = args[ai]; ai += 1
            if cv == 's':
                # keep symbolic bytes symbolic
                bs = []; k = 0; a = s.concretize(a, 64)
                while prec is None or k < prec:
                    b = s.load(a + k, 1)
                    if is_sym(b):
                        if s.branch(b == 0): break
                    elif b == 0: break
                    bs.append(b); k += 1
                pad = max(0, int(width or 0) - len(bs))
                out += (bs + [32] * pad) if '-' in flags else ([32] * pad + bs); continue
            if cv in 'feEgG':
                x = float(a) if not is_sym(a) else float(s.concretize(a, 64))
                spec = '%' + flags + width + ('.%d' % prec if prec is not None else '') + cv
                import math
                if x != x: txt = ('-nan' if math.copysign(1.0, x) < 0 else 'nan'); txt = txt.rjust(int(width or 0)) if '-' not in flags else txt.ljust(int(width or 0))
                else: txt = spec % x
                out += [ord(ch) for ch in txt]; continue
            bits = 64 if ln in ('l', 'll', 'z', 'j', 't') or cv == 'p' else 32
            if ln == 'hh': bits = 8
            elif ln == 'h': bits = 16
            a = s.concretize(a, 64 if bits == 64 else 32) & ((1 << bits) - 1)
            if cv == 'c': txt = chr(a & 255); spec = '%' + flags.replace('0', '') + width + 's'
            else:
                val = sx(a, bits) if cv in 'di' else a
                spec = '%' + flags + width + ('.%d' % prec if prec is not None else '') + {'d': 'd', 'i': 'd', 'u': 'd', 'x': 'x', 'X': 'X', 'o': 'o', 'p': 'x'}[cv]
                txt = spec % val; spec = '%s'
                if cv == 'p': txt = '0x' + txt
            out += [ord(ch) for ch in spec % txt]
        return out
    def vfs_event(s):
        """one persistence event; returns True if the simulated process is dead (nothing persists any more)"""
        s.events += 1
        if s.die_after is not None and not s.frozen:
            da = s.die_after
            if is_sym(da):
                if s.branch(z3.ULT(da, s.events - s.die_base)): s.frozen = True       # dies right before this event takes effect
            elif s.events - s.die_base > da: s.frozen = True
        return s.frozen
    def vfs_write(s, fh, bs):
        """stdio output: bytes go to the stream's buffer; they persist (one event, atomically) when the buffer is flushed"""
        f = s.files.get(fh)
        if f is None: raise Violation('memory-safety: write to an invalid FILE* %#x' % fh)
        if f['path'] in ('<stdout>', '<stderr>'): s.vfs[f['path']].extend(bs); return
        if 'w' not in f['mode'] and 'a' not in f['mode'] and '+' not in f['mode']: return
        f['buf'].extend(bs)
        bm = f.get('bufmode', 'full')
        if bm == 'none': s.vfs_flush(f)
        elif bm == 'line':
            last = -1
            for i, b in enumerate(f['buf']):
                if not is_sym(b) and b == 10: last = i
            if last >= 0: s.vfs_flush(f, last + 1)
        elif len(f['buf']) > (1 << 19): s.vfs_flush(f)
    def vfs_flush(s, f, upto=None):
        if not f.get('buf'): return
        bs = f['buf'] if upto is None else f['buf'][:upto]
        f['buf'] = [] if upto is None else f['buf'][upto:]
        if s.vfs_event(): return
        data = s.vfs[f['path']] if f['path'] in s.vfs and s.vfs_id.get(f['path']) == f['id'] else f.setdefault('orphan', [])
        if f['append']: f['pos'] = len(data)
        if f['pos'] > len(data): data.extend([0] * (f['pos'] - len(data)))
        data[f['pos']:f['pos'] + len(bs)] = bs; f['pos'] += len(bs)
        s.vfs_clock += 1; s.vfs_mtime[f['path']] = s.vfs_clock
    def vfs_call(s, n, args):
        F = s.files; V = s.vfs
        if n in ('fopen', 'fopen64'):
            path = s.cstring(args[0]); mode = s.cstring(args[1])
            if mode[0] == 'r' and path not in V: s.set_errno(2); return 0
            if path in s.vfs_dirs: s.set_errno(21); return 0
            if mode[0] != 'r':
                s.vfs_event()
                if s.frozen: path = '<frozen:%d>' % s.events; V[path] = []; s.vfs_id[path] = s.events
                elif mode[0] == 'w' or path not in V:
                    V[path] = []; s.vfs_id[path] = s.events; s.vfs_clock += 1; s.vfs_mtime[path] = s.vfs_clock
            h = s.alloc(16, 'FILE ' + path, zero=True)
            F[h] = dict(path=path, pos=len(V[path]) if mode[0] == 'a' else 0, append=mode[0] == 'a', eof=False, mode=mode, id=s.vfs_id.get(path), buf=[], bufmode='full')
            return h
        if n == 'fclose':
            h = s.concretize(args[0], 64)
            if h not in F: raise Violation('memory-safety: fclose of an invalid FILE* %#x' % h)
            s.vfs_flush(F[h]); F.pop(h); s.find_alloc(h)[2] = False; return 0
        if n == 'fflush':
            h = s.concretize(args[0], 64)
            for f in ([F[h]] if h in F else (list(F.values()) if h == 0 else [])): s.vfs_flush(f)
            return 0
        if n == 'setvbuf':
            f = F.get(s.concretize(args[0], 64))
            if f is not None: f['bufmode'] = {0: 'full', 1: 'line', 2: 'none'}.get(s.concretize(args[2], 32), 'full')
            return 0
        if n == 'fsync': return 0
        if n == 'fileno':
            f = F.get(args[0])
            if not f: return 3
            if f['path'] in ('<stdout>', '<stderr>'): return 1 if f['path'] == '<stdout>' else 2
            if 'fd' not in f:
                s.fd_next = getattr(s, 'fd_next', 50) + 1; s.fds = getattr(s, 'fds', {}); f['fd'] = s.fd_next
                s.fds[s.fd_next] = dict(path=f['path'], pos=0, append=False, acc=0)
            return f['fd']
        if n in ('fstat', 'fstat64', '__fxstat', '__fxstat64'):
            fd, sa = (args[1], args[2]) if n.startswith('__') else (args[0], args[1]); fd = s.concretize(fd, 32)
            ent = getattr(s, 'fds', {}).get(fd)
            if ent is None or ent['path'] not in V: s.set_errno(9); return 0xFFFFFFFF
            for i in range(0, 144, 8): s.store(sa + i, 8, 0)
            s.store(sa + 24, 4, 0o100644); s.store(sa + 48, 8, len(V[ent['path']])); s.store(sa + 88, 8, s.vfs_mtime.get(ent['path'], 1)); s.store(sa + 96, 8, 0)
            return 0
        if n in ('ftell', 'ftello'):
            f = F[args[0]]; s.vfs_flush(f)
            return len(V.get(f['path'], [])) if f['append'] and 'r' not in f['mode'] else f['pos']
        if n in ('fseek', 'fseeko'):
            f = F[args[0]]; off = sx(s.concretize(args[1], 64), 64); wh = s.concretize(args[2], 32); s.vfs_flush(f)
            f['pos'] = off if wh == 0 else f['pos'] + off if wh == 1 else len(V[f['path']]) + off; f['eof'] = False; return 0
        if n == 'rewind': F[args[0]]['pos'] = 0; F[args[0]]['eof'] = False; return None
        if n == 'feof': return int(F[args[0]]['eof'])
        if n in ('ferror', 'clearerr'): return 0
        if n == 'fread':
            ptr, f = s.concretize(args[0], 64), F[s.concretize(args[3], 64)]
            data = V.get(f['path'], []); have = max(0, len(data) - f['pos'])
            size, nm = args[1], args[2]
            if is_sym(size) and not is_sym(nm) and nm == 1:
                # one item of symbolic size: either it does not fit into what is left (short read, the exact size is irrelevant) or the size is one of few values
                if s.branch(z3.UGT(size, have)):
                    if have: s.check(ptr, have, 'fread store')
                    for i in range(have): s.store(ptr + i, 1, data[f['pos'] + i])
                    f['pos'] += have; f['eof'] = True; return 0
            size, nm = s.concretize(size, 64), s.concretize(nm, 64); want = size * nm
            items = min(want, have) // size if size else 0
            got = min(want, have)
            if got: s.check(ptr, got, 'fread store')
            for i in range(got): s.store(ptr + i, 1, data[f['pos'] + i])
            f['pos'] += got
            if items < nm: f['eof'] = True
            return items
        if n == 'fgets':
            ptr, size, f = s.concretize(args[0], 64), s.concretize(args[1], 32), F[args[2]]
            data = V.get(f['path'], []); k = 0
            if f['pos'] >= len(data): f['eof'] = True; return 0
            while k < size - 1 and f['pos'] < len(data):
                b = data[f['pos']]; s.store(ptr + k, 1, b); k += 1; f['pos'] += 1
                if is_sym(b):
                    if s.branch(b == 10): break
                elif b == 10: break
            s.store(ptr + k, 1, 0); return ptr
        if n in ('fgetc', 'getc'):
            f = F[args[0]]; data = V.get(f['path'], [])
            if f['pos'] >= len(data): f['eof'] = True; return 0xFFFFFFFF
            b = data[f['pos']]; f['pos'] += 1
            return z3.ZeroExt(24, b) if is_sym(b) else b
        if n in ('fwrite', 'fwrite_unlocked', 'fprintf', 'fputs', 'fputc', 'putc', 'printf', 'puts', 'putchar'):
            if n.startswith('fwrite'):
                ptr, size, nm, fh = s.concretize(args[0], 64), s.concretize(args[1], 64), s.concretize(args[2], 64), args[3]
                if size * nm: s.check(ptr, size * nm, 'fwrite load')
                bs = [s.load(ptr + i, 1) for i in range(size * nm)]; ret = nm
            elif n == 'fprintf': fh = args[0]; bs = s.fmt(s.cstring(args[1]), args[2:]); ret = len(bs)
            elif n == 'printf': fh = s.stdout_h; bs = s.fmt(s.cstring(args[0]), args[1:]); ret = len(bs)
            elif n == 'fputs': fh = args[1]; bs = s.cbytes(args[0], len(s.cstring(args[0]))); ret = 1
            elif n == 'puts': fh = s.stdout_h; bs = s.cbytes(args[0], len(s.cstring(args[0]))) + [10]; ret = 1
            elif n == 'putchar': fh = s.stdout_h; bs = [args[0] & 255 if not is_sym(args[0]) else z3.Extract(7, 0, args[0])]; ret = args[0]
            else: fh = args[1]; bs = [args[0] & 255 if not is_sym(args[0]) else z3.Extract(7, 0, args[0])]; ret = args[0]
            s.vfs_write(s.concretize(fh, 64), bs); return ret
        if n in ('snprintf', 'sprintf'):
            if n == 'snprintf': buf, cap, f, rest = args[0], s.concretize(args[1], 64), s.cstring(args[2]), args[3:]
            else: buf, cap, f, rest = args[0], 1 << 30, s.cstring(args[1]), args[2:]
            bs = s.fmt(f, rest)
            if cap:
                k = min(len(bs), cap - 1)
                for i in range(k): s.store(buf + i, 1, bs[i])
                s.store(buf + k, 1, 0)
            return len(bs)
        if n in ('open', 'open64', 'creat', 'creat64'):
            # descriptor-level I/O on the same in-memory files: every write is a persistence event of its own (no user-space buffer)
            path = s.cstring(args[0]); flags = (0o1101 if n.startswith('creat') else s.concretize(args[1], 32))
            acc = flags & 3; creat = bool(flags & 0o100); trunc = bool(flags & 0o1000); excl = bool(flags & 0o200)
            if path in s.vfs_dirs: s.set_errno(21); return 0xFFFFFFFF
            if path not in V:
                if not creat: s.set_errno(2); return 0xFFFFFFFF
                if not s.vfs_event(): V[path] = []; s.vfs_id[path] = s.events; s.vfs_clock += 1; s.vfs_mtime[path] = s.vfs_clock
            elif creat and excl: s.set_errno(17); return 0xFFFFFFFF
            elif trunc and acc != 0:
                if not s.vfs_event(): V[path][:] = []; s.vfs_clock += 1; s.vfs_mtime[path] = s.vfs_clock
            s.fd_next = getattr(s, 'fd_next', 50) + 1; s.fds = getattr(s, 'fds', {})
            s.fds[s.fd_next] = dict(path=path, pos=0, append=bool(flags & 0o2000), acc=acc); return s.fd_next
        if n in ('write', 'read', 'close', 'lseek', 'ftruncate') and s.concretize(args[0], 32) in getattr(s, 'fds', {}):
            fd = s.concretize(args[0], 32); f = s.fds[fd]; data = V.get(f['path'])
            if n == 'close': del s.fds[fd]; return 0
            if data is None: s.set_errno(5); return 0xFFFFFFFFFFFFFFFF
            if n == 'write':
                if f['acc'] == 0: s.set_errno(9); return 0xFFFFFFFFFFFFFFFF
                ptr = s.concretize(args[1], 64); cnt = s.concretize(args[2], 64)
                if cnt: s.check(ptr, cnt, 'write load')
                bs = [s.load(ptr + i, 1) for i in range(cnt)]
                if not s.vfs_event():
                    if f['append']: f['pos'] = len(data)
                    if f['pos'] > len(data): data.extend([0] * (f['pos'] - len(data)))
                    data[f['pos']:f['pos'] + cnt] = bs; s.vfs_clock += 1; s.vfs_mtime[f['path']] = s.vfs_clock
                f['pos'] += cnt; return cnt
            if n == 'read':
                ptr = s.concretize(args[1], 64); cnt = s.concretize(args[2], 64); got = max(0, min(cnt, len(data) - f['pos']))
                if got: s.check(ptr, got, 'read store')
                for i in range(got): s.store(ptr + i, 1, data[f['pos'] + i])
                f['pos'] += got; return got
            if n == 'lseek':
                off = sx(s.concretize(args[1], 64), 64); wh = s.concretize(args[2], 32); f['pos'] = off if wh == 0 else f['pos'] + off if wh == 1 else len(data) + off; return f['pos']
            if n == 'ftruncate':
                ln = s.concretize(args[1], 64)
                if not s.vfs_event(): data[:] = data[:ln] + [0] * (ln - len(data))
                return 0
        if n in ('rmdir',):
            path = s.cstring(args[0])
            if path not in s.vfs_dirs: s.set_errno(2); return 0xFFFFFFFF
            if not s.vfs_event(): s.vfs_dirs.discard(path)
            return 0
        if n in ('unlink', 'remove'):
            path = s.cstring(args[0])
            if path not in V: s.set_errno(2); return 0xFFFFFFFF
            if not s.vfs_event(): del V[path]; s.vfs_id.pop(path, None)
            return 0
        if n == 'rename':
            a, b = s.cstring(args[0]), s.cstring(args[1])
            if a not in V: s.set_errno(2); return 0xFFFFFFFF
            if not s.vfs_event():
                V[b] = V.pop(a); s.vfs_id[b] = s.vfs_id.pop(a, None); s.vfs_clock += 1; s.vfs_mtime[b] = s.vfs_mtime.get(a, 0)
                for f in F.values():
                    if f['path'] == a: f['path'] = b
            return 0
        if n in ('truncate', 'truncate64'):
            path = s.cstring(args[0]); ln = s.concretize(args[1], 64)
            if path not in V: s.set_errno(2); return 0xFFFFFFFF
            if not s.vfs_event():
                d = V[path]; d[:] = d[:ln] + [0] * (ln - len(d)); s.vfs_clock += 1; s.vfs_mtime[path] = s.vfs_clock
            return 0
        if n in ('mkdir',):
            path = s.cstring(args[0])
            if path in s.vfs_dirs: s.set_errno(17); return 0xFFFFFFFF
            if not s.vfs_event(): s.vfs_dirs.add(path)
            return 0
        if n in ('access',): return 0 if s.cstring(args[0]) in V else 0xFFFFFFFF
        if n in ('chown',): return 0 if s.cstring(args[0]) in V else 0xFFFFFFFF
        if n in ('stat', 'stat64', 'lstat', '__xstat', '__xstat64', '__lxstat'):
            pa, sa = (args[1], args[2]) if n.startswith('__') else (args[0], args[1])
            path = s.cstring(pa)
            if path not in V and path not in s.vfs_dirs: s.set_errno(2); return 0xFFFFFFFF
            for i in range(0, 144, 8): s.store(sa + i, 8, 0)
            isdir = path in s.vfs_dirs
            s.store(sa + 24, 4, 0o040755 if isdir else 0o100644)           # st_mode
            s.store(sa + 48, 8, 0 if isdir else len(V[path]))               # st_size
            s.store(sa + 88, 8, s.vfs_mtime.get(path, 1)); s.store(sa + 96, 8, 0)   # st_mtim
            return 0
        if n == 'verif_file_size':
            path = s.cstring(args[0]); return len(V[path]) if path in V else 0xFFFFFFFFFFFFFFFF
        if n == 'verif_vfs_save':       # snapshot of the persistent file system state (for control experiments inside one path)
            import copy
            s.vfs_saved = getattr(s, 'vfs_saved', {}); slot = s.concretize(args[0], 32)
            s.vfs_saved[slot] = ({k: list(v) for k, v in V.items() if not k.startswith('<')}, dict(s.vfs_id), dict(s.vfs_mtime), set(s.vfs_dirs)); return None
        if n == 'verif_vfs_restore':
            slot = s.concretize(args[0], 32); files, ids, mt, dirs = s.vfs_saved[slot]
            for k in [k for k in V if not k.startswith('<')]: del V[k]
            for k, v in files.items(): V[k] = list(v)
            s.vfs_id = dict(ids); s.vfs_mtime = dict(mt); s.vfs_dirs = set(dirs); return None
        if n == 'verif_file_hash':
            path = s.cstring(args[0])
            if path not in V: return 0xFFFFFFFFFFFFFFFF
            h = 1469598103
            for b in V[path]: h = (h * 1099511 + (s.concretize(b, 8) if is_sym(b) else b) + 1) % 2305843009213693951
            return h
        if n == 'verif_vfs_freeze':
            s.frozen = bool(s.concretize(args[0], 32))
            if not s.frozen: s.die_after = None
            return None
        if n == 'verif_vfs_die_after':        # the process dies right after the n-th persistence event from now (n = 0: before the next one)
            s.die_after = args[0]; s.die_base = s.events; return None
        if n == 'verif_stdout_capture': s.capture_base = len(V['<stdout>']); s.capture_base_err = len(V['<stderr>']); return None
        if n == 'verif_stdout_len': return len(V['<stdout>']) - getattr(s, 'capture_base', 0)
        if n == 'verif_stdout_copy':
            buf = s.concretize(args[0], 64); cap = s.concretize(args[1], 64); data = V['<stdout>'][getattr(s, 'capture_base', 0):]
            k = min(len(data), cap)
            for i in range(k): s.store(buf + i, 1, data[i])
            return k
        if n == 'verif_stderr_copy':
            buf = s.concretize(args[0], 64); cap = s.concretize(args[1], 64); data = V['<stderr>'][getattr(s, 'capture_base_err', 0):]
            k = min(len(data), cap)
            for i in range(k): s.store(buf + i, 1, data[i])
            return k
        if n == 'verif_vfs_event': return int(s.vfs_event())
        if n == 'verif_vfs_frozen': return int(s.frozen)
        if n == 'verif_vfs_events': return s.events
        if n in ('sscanf', '__isoc99_sscanf'):
            # %d and literal characters only (what ninja uses); symbolic input bytes fork per character class
            base_addr = s.concretize(args[0], 64); f = s.cstring(args[1]); ti = 0; fi = 0; ai = 2; got = 0
            endp = s.alloc(8, 'sscanf-endptr')
            def byte_is(off, pred_c, pred_s):
                b = s.load(base_addr + off, 1)
                return s.branch(pred_s(b)) if is_sym(b) else pred_c(b)
            while fi < len(f):
                c = f[fi]
                if c == '%' and f[fi + 1] == 'd':
                    v = s.external('@strtol', [base_addr + ti, endp, 10])
                    used = s.load(endp, 8) - (base_addr + ti)
                    if used == 0: return got
                    s.store(args[ai], 4, z3.Extract(31, 0, v) if is_sym(v) else v & 0xFFFFFFFF); ai += 1; got += 1; ti += used; fi += 2
                elif c in ' \t\n':
                    while byte_is(ti, lambda b: b in (32, 9, 10, 11, 12, 13), lambda b: z3.Or(b == 32, z3.And(z3.UGE(b, 9), z3.ULE(b, 13)))): ti += 1
                    fi += 1
                else:
                    if not byte_is(ti, lambda b: b == ord(c), lambda b: b == ord(c)): return got
                    ti += 1; fi += 1
            return got
        return NotImplemented

    # ---- exploration
    def out_text(s, name='<stdout>'): return bytes(b if isinstance(b, int) else 63 for b in s.vfs.get(name, [])).decode('latin1')

    def run_path(s, entry, prefix):
        """execute one path following prefix; returns a result dict; new alternatives are appended to s.work"""
        s.prefix = prefix; s.reset()
        end = 'complete'; detail = ''
        try:
            s.call('@' + entry, [])
        except PathEnd as e: end = 'pathend'; detail = str(e)
        except Violation as e:
            end = 'violation'; detail = str(e)
            try: s.report(detail)
            except (Inconclusive, PathEnd): s.violations.append(dict(msg=detail, known=None, vector=[], trace=list(s.trace), notes=list(s.notes)))
        except Inconclusive as e: end = 'inconclusive'; detail = str(e)
        except RecursionError: end = 'inconclusive'; detail = 'python recursion limit'
        res = dict(end=end, detail=detail, steps=s.icount, decisions=len(s.trace), new_decisions=len(s.trace) - len(prefix),
                   violations=s.violations, reached=sorted(set(s.reached)), asserts=dict(s.asserts_seen), nondets=len(s.nondets))
        if end in ('complete', 'pathend', 'inconclusive') and not detail.startswith(('assume false', 'infeasible', 'expected Fatal')):
            try:
                mdl = s.cur_model()
                res['vector'] = s.vector_of(mdl); res['obs'] = [sx(s.eval_in(mdl, o), 64) for o in s.obs]; res['notes'] = list(s.notes)
                res['stdout'] = bytes(s.eval_in(mdl, b) & 255 for b in s.vfs.get('<stdout>', [])[:400]).decode('latin1')
            except (PathEnd, Inconclusive): pass
        return res

def worker_explore(engine, entry, prefix, max_paths, deadline):
    """DFS below prefix for at most max_paths paths; returns (results, leftover prefixes, stats)"""
    engine.work = [prefix]; results = []
    engine.stats = collections.Counter()
    while engine.work and len(results) < max_paths and time.time() < deadline:
        p = engine.work.pop()
        results.append(engine.run_path(entry, p))
    left = engine.work; engine.work = []
    return results, left, dict(engine.stats)

if __name__ == '__main__':
    e = Engine(sys.argv[1])
    res, left, st = worker_explore(e, sys.argv[2], [], int(sys.argv[3]) if len(sys.argv) > 3 else 100000, time.time() + 3600)
    ends = collections.Counter(r['end'] + (':' + r['detail'] if r['end'] != 'complete' else '') for r in res)
    print(len(res), 'paths', len(left), 'pending', dict(ends), st)
    for r in res:
        for v in r['violations']: print('VIOLATION', v['msg'], v['vector'])

/* getopt_model.c — POSIX getopt / getopt_long as far as ninja uses it (short options with and without arguments, long options
   "--name" and "--name=value").  Linked into the IR module and into the native replay build so that both parse argv identically.
   Not modelled: GNU argv permutation (options after the first non-option are not recognised), abbreviated long options. */
#include <stddef.h>
struct option { const char* name; int has_arg; int* flag; int val; };
char* optarg; int optind = 1, opterr = 1, optopt;
static int nextchar;
static int streq_upto(const char* a, const char* name, const char** rest) {
  size_t i = 0;
  while (name[i] && a[i] == name[i]) i++;
  if (name[i]) return 0;
  if (a[i] != 0 && a[i] != '=') return 0;
  *rest = a + i; return 1;
}
int getopt_long(int argc, char* const argv[], const char* optstring, const struct option* longopts, int* longindex) {
  if (optind == 0) { optind = 1; nextchar = 0; }
  optarg = 0;
  if (nextchar == 0) {
    if (optind >= argc) return -1;
    char* a = argv[optind];
    if (a == 0 || a[0] != '-' || a[1] == 0) return -1;
    if (a[1] == '-' && a[2] == 0) { optind++; return -1; }
    if (a[1] == '-' && longopts) {
      for (int i = 0; longopts[i].name; i++) {
        const char* rest;
        if (!streq_upto(a + 2, longopts[i].name, &rest)) continue;
        optind++;
        if (longopts[i].has_arg) {
          if (*rest == '=') optarg = (char*)rest + 1;
          else if (optind < argc) optarg = argv[optind++];
          else return '?';
        } else if (*rest == '=') return '?';
        if (longindex) *longindex = i;
        if (longopts[i].flag) { *longopts[i].flag = longopts[i].val; return 0; }
        return longopts[i].val;
      }
      optind++; return '?';
    }
    nextchar = 1;
  }
  char c = argv[optind][nextchar++];
  const char* p = optstring;
  while (*p && (*p != c || c == ':')) p++;
  if (!*p) { optopt = c; if (!argv[optind][nextchar]) { optind++; nextchar = 0; } return '?'; }
  if (p[1] == ':') {
    if (argv[optind][nextchar]) { optarg = &argv[optind][nextchar]; optind++; }
    else if (optind + 1 < argc) { optarg = argv[optind + 1]; optind += 2; }
    else { optind++; nextchar = 0; optopt = c; return optstring[0] == ':' ? ':' : '?'; }
    nextchar = 0; return c;
  }
  if (!argv[optind][nextchar]) { optind++; nextchar = 0; }
  return c;
}
int getopt(int argc, char* const argv[], const char* optstring) { return getopt_long(argc, argv, optstring, 0, 0); }

// native_driver.cc — runs a harness natively on one concrete vector of nondet values (replay and cross-validation).
// usage: <exe> <vector-file> [scratch-dir]   vector file: one decimal value per line, in call order of verif_nondet
#include <stdio.h>
#include <stdlib.h>
#include <string.h>
#include <string>
#include <vector>
#include <sys/stat.h>
#include <unistd.h>
extern "C" int harness_main(void);
static std::vector<long> g_vec; static size_t g_pos; static int g_fail; static int g_frozen; static long g_events;
extern "C" {
long verif_nondet(const char* name, long lo, long hi) {
  long v = g_pos < g_vec.size() ? g_vec[g_pos] : lo; g_pos++;
  if (v < lo || v > hi) { printf("VECTOR-OUT-OF-RANGE %s\n", name); fflush(stdout); _exit(78); }
  return v;
}
void __CPROVER_assume(bool c) { if (!c) { printf("ASSUME-FALSE\n"); fflush(stdout); _exit(77); } }
void __CPROVER_assert(bool c, const char* m) { if (!c) { printf("ASSERT-FAIL %s\n", m); g_fail++; } }
void verif_reach(const char* l) { printf("REACH %s\n", l); }
void verif_obs(long v) { printf("OBS %ld\n", v); }
void verif_note(const char*) {}
void ir2c_global_ctors(void) {}
unsigned long verif_file_size(const char* p) { struct stat st; if (stat(p, &st) != 0) return (unsigned long)-1; return st.st_size; }
void verif_vfs_freeze(int on) { fflush(NULL); g_frozen = on; }
long verif_vfs_events(void) { return g_events; }
void verif_expect_fatal(int) {}
}
int main(int argc, char** argv) {
  if (argc > 1) { FILE* f = fopen(argv[1], "r"); long v; while (f && fscanf(f, "%ld", &v) == 1) g_vec.push_back(v); if (f) fclose(f); }
  if (argc > 2 && chdir(argv[2]) != 0) { perror("chdir"); return 79; }
  setvbuf(stdout, NULL, _IOLBF, 0);
  harness_main();
  printf("DONE fails=%d\n", g_fail);
  return g_fail ? 2 : 0;
}

// native_driver.cc — runs a harness natively on one concrete vector of nondet values (replay and cross-validation).
// usage: <exe> <vector-file> [scratch-dir]   vector file: one decimal value per line, in call order of verif_nondet
#include <stdio.h>
#include <stdlib.h>
#include <string.h>
#include <string>
#include <vector>
#include <sys/stat.h>
#include <unistd.h>
#include <fcntl.h>
#include <sys/syscall.h>
extern "C" int harness_main(void);
static FILE* g_proto;
static std::vector<long> g_vec; static size_t g_pos; static int g_fail; static int g_frozen; static long g_events;
extern "C" {
long verif_nondet(const char* name, long lo, long hi) {
  long v = g_pos < g_vec.size() ? g_vec[g_pos] : lo; g_pos++;
  if (v < lo || v > hi) { fprintf(g_proto, "VECTOR-OUT-OF-RANGE %s\n", name); fflush(g_proto); _exit(78); }
  return v;
}
long verif_concretize(long v) { return v; }
void __CPROVER_assume(bool c) { if (!c) { fprintf(g_proto, "ASSUME-FALSE\n"); fflush(g_proto); _exit(77); } }
void __CPROVER_assert(bool c, const char* m) { if (!c) { fprintf(g_proto, "ASSERT-FAIL %s\n", m); g_fail++; } }
void verif_reach(const char* l) { fprintf(g_proto, "REACH %s\n", l); }
void verif_obs(long v) { fprintf(g_proto, "OBS %ld\n", v); }
void verif_note(const char* t) { if (getenv("VERIF_DEBUG")) fprintf(g_proto, "NOTE %s\n", t); }
void ir2c_global_ctors(void) {}
unsigned long verif_file_size(const char* p) { struct stat st; if (stat(p, &st) != 0) return (unsigned long)-1; return st.st_size; }
static void copy_file(const char* from, const char* to) { FILE* a = fopen(from, "rb"); if (!a) { remove(to); return; } std::string data; int c; while ((c = fgetc(a)) != EOF) data.push_back((char)c); fclose(a);
  int fd = creat(to, 0644); if (fd >= 0) { size_t off = 0; while (off < data.size()) { ssize_t w = pwrite(fd, data.data() + off, data.size() - off, off); if (w <= 0) break; off += (size_t)w; } close(fd); } }
void verif_vfs_save(int slot) { char b[64]; fflush(NULL); snprintf(b, sizeof b, ".verif_save_%d_log", slot); copy_file(".ninja_log", b); snprintf(b, sizeof b, ".verif_save_%d_deps", slot); copy_file(".ninja_deps", b); }
void verif_vfs_restore(int slot) { char b[64]; fflush(NULL); snprintf(b, sizeof b, ".verif_save_%d_log", slot); copy_file(b, ".ninja_log"); snprintf(b, sizeof b, ".verif_save_%d_deps", slot); copy_file(b, ".ninja_deps"); }
unsigned long verif_file_hash(const char* p) { FILE* f = fopen(p, "rb"); if (!f) return (unsigned long)-1; unsigned long h = 1469598103UL; int c; while ((c = fgetc(f)) != EOF) h = (unsigned long)(((unsigned __int128)h * 1099511UL + (unsigned long)c + 1) % 2305843009213693951UL); fclose(f); return h; }
// ---- the same persistence-event model as the engine's VFS, on the real file system (linked with -Wl,--wrap=...):
// output streams opened by the code under test are buffered here; a flush of a non-empty buffer is one atomic persistence event.
static long g_die_after = -1, g_die_base = 0;
static int vfs_event() { g_events++; if (g_die_after >= 0 && !g_frozen && g_events - g_die_base > g_die_after) g_frozen = 1; return g_frozen; }
void verif_vfs_freeze(int on) { g_frozen = on; if (!on) g_die_after = -1; }
long verif_vfs_events(void) { return g_events; }
void verif_vfs_die_after(long n) { g_die_after = n; g_die_base = g_events; }
int verif_vfs_event(void) { return vfs_event(); }
int verif_vfs_frozen(void) { return g_frozen; }
}
#include <map>
#include <stdarg.h>
struct WStream { std::string buf; int mode; bool dropped; };      // mode 0 full, 1 line, 2 none
static std::map<FILE*, WStream> g_streams;
extern "C" {
FILE* __real_fopen(const char*, const char*); int __real_fclose(FILE*); size_t __real_fwrite(const void*, size_t, size_t, FILE*); int __real_fflush(FILE*);
int __real_setvbuf(FILE*, char*, int, size_t); long __real_ftell(FILE*); int __real_fseek(FILE*, long, int); int __real_unlink(const char*); int __real_rename(const char*, const char*);
int __real_truncate(const char*, off_t);
static void wflush(FILE* f, WStream& w, size_t upto = std::string::npos) {
  if (w.buf.empty()) return;
  std::string out = upto == std::string::npos ? w.buf : w.buf.substr(0, upto);
  w.buf = upto == std::string::npos ? std::string() : w.buf.substr(upto);
  if (vfs_event() || w.dropped) return;
  __real_fwrite(out.data(), 1, out.size(), f); __real_fflush(f);
}
static void wappend(FILE* f, WStream& w, const char* p, size_t n) {
  w.buf.append(p, n);
  if (w.mode == 2) wflush(f, w);
  else if (w.mode == 1) { size_t nl = w.buf.rfind('\n'); if (nl != std::string::npos) wflush(f, w, nl + 1); }
  else if (w.buf.size() > (1u << 19)) wflush(f, w);
}
FILE* __wrap_fopen(const char* path, const char* mode) {
  if (mode[0] == 'r') return __real_fopen(path, mode);
  vfs_event();
  FILE* f = g_frozen ? __real_fopen("/dev/null", "w") : __real_fopen(path, mode);
  if (f) { __real_setvbuf(f, NULL, _IONBF, 0); WStream w; w.mode = 0; w.dropped = g_frozen; g_streams[f] = w; }
  return f;
}
int __wrap_setvbuf(FILE* f, char* b, int mode, size_t size) {
  std::map<FILE*, WStream>::iterator it = g_streams.find(f);
  if (it == g_streams.end()) return __real_setvbuf(f, b, mode, size);
  it->second.mode = mode == _IOLBF ? 1 : mode == _IONBF ? 2 : 0; return 0;
}
size_t __wrap_fwrite(const void* p, size_t size, size_t n, FILE* f) {
  std::map<FILE*, WStream>::iterator it = g_streams.find(f);
  if (it == g_streams.end()) return __real_fwrite(p, size, n, f);
  wappend(f, it->second, (const char*)p, size * n); return n;
}
int __wrap_fprintf(FILE* f, const char* fmt, ...) {
  va_list ap; va_start(ap, fmt);
  std::map<FILE*, WStream>::iterator it = g_streams.find(f);
  int r;
  if (it == g_streams.end()) r = vfprintf(f, fmt, ap);
  else { char tmp[1 << 16]; r = vsnprintf(tmp, sizeof tmp, fmt, ap); if (r > 0) wappend(f, it->second, tmp, (size_t)r < sizeof tmp ? r : sizeof tmp - 1); }
  va_end(ap); return r;
}
int __wrap_fflush(FILE* f) {
  if (!f) { for (std::map<FILE*, WStream>::iterator it = g_streams.begin(); it != g_streams.end(); ++it) wflush(it->first, it->second); return __real_fflush(NULL); }
  std::map<FILE*, WStream>::iterator it = g_streams.find(f);
  if (it == g_streams.end()) return __real_fflush(f);
  wflush(f, it->second); return 0;
}
int __wrap_fclose(FILE* f) {
  std::map<FILE*, WStream>::iterator it = g_streams.find(f);
  if (it != g_streams.end()) { wflush(f, it->second); g_streams.erase(it); }
  return __real_fclose(f);
}
long __wrap_ftell(FILE* f) { std::map<FILE*, WStream>::iterator it = g_streams.find(f); if (it != g_streams.end()) wflush(f, it->second); return __real_ftell(f); }
int __wrap_fseek(FILE* f, long off, int wh) { std::map<FILE*, WStream>::iterator it = g_streams.find(f); if (it != g_streams.end()) wflush(f, it->second); return __real_fseek(f, off, wh); }
int __wrap_unlink(const char* p) { struct stat st; if (stat(p, &st) != 0) return __real_unlink(p); if (vfs_event()) return 0; return __real_unlink(p); }
int __wrap_rename(const char* a, const char* b) { struct stat st; if (stat(a, &st) != 0) return __real_rename(a, b); if (vfs_event()) return 0; return __real_rename(a, b); }
int __wrap_truncate(const char* p, off_t n) { struct stat st; if (stat(p, &st) != 0) return __real_truncate(p, n); if (vfs_event()) return 0; return __real_truncate(p, n); }
void verif_expect_fatal(int) {}
// stdout pretending to be a terminal (linked with --wrap=isatty,--wrap=ioctl)
static int g_tty_on, g_tty_cols;
void verif_set_tty(int on, int cols) { g_tty_on = on; g_tty_cols = cols; }
int __real_isatty(int); int __real_ioctl(int, unsigned long, void*);
int __wrap_isatty(int fd) { if (g_tty_on) return fd == 1; return __real_isatty(fd); }
int __wrap_ioctl(int fd, unsigned long req, void* arg) {
  if (g_tty_on && req == 0x5413) { unsigned short* ws = (unsigned short*)arg; ws[0] = 24; ws[1] = (unsigned short)g_tty_cols; ws[2] = ws[3] = 0; return 0; }
  return __real_ioctl(fd, req, arg);
}
static FILE* g_cap; static FILE* g_cap_err; static long g_err_base, g_out_base;
void verif_stdout_capture(void) { fflush(stdout); fflush(stderr); if (!g_cap) g_cap = tmpfile(); dup2(fileno(g_cap), 1); { struct stat so; fstat(fileno(g_cap), &so); g_out_base = so.st_size; }
  if (!g_cap_err) { g_cap_err = tmpfile(); dup2(fileno(g_cap_err), 2); } struct stat st; fstat(fileno(g_cap_err), &st); g_err_base = st.st_size; }
long verif_stderr_copy(char* buf, long cap) { fflush(stderr); if (!g_cap_err) return 0; struct stat st; fstat(fileno(g_cap_err), &st); long n = st.st_size - g_err_base; if (n > cap) n = cap; long r = pread(fileno(g_cap_err), buf, n, g_err_base); return r < 0 ? 0 : r; }
// exit() inside verif_call_catching_exit (linked with --wrap=exit): flush stdio as exit does, then unwind without running destructors
#include <setjmp.h>
static jmp_buf g_exit_jmp; static int g_exit_catch; static int g_exit_code;
void __real_exit(int);
void __wrap_exit(int code) { if (g_exit_catch) { fflush(NULL); g_exit_code = code; longjmp(g_exit_jmp, 1); } __real_exit(code); }
long verif_call_catching_exit(void (*fn)(void*), void* arg) {
  g_exit_catch++;
  if (setjmp(g_exit_jmp) == 0) { fn(arg); g_exit_catch--; return -1; }
  g_exit_catch--; return g_exit_code;
}
long verif_stdout_len(void) { fflush(stdout); if (!g_cap) return 0; struct stat st; fstat(fileno(g_cap), &st); return st.st_size - g_out_base; }
long verif_stdout_copy(char* buf, long cap) { fflush(stdout); if (!g_cap) return 0; long n = verif_stdout_len(); if (n > cap) n = cap; long r = pread(fileno(g_cap), buf, n, g_out_base); return r < 0 ? 0 : r; }
}
int main(int argc, char** argv) {
  if (argc > 1) { FILE* f = fopen(argv[1], "r"); long v; while (f && fscanf(f, "%ld", &v) == 1) g_vec.push_back(v); if (f) fclose(f); }
  if (argc > 2 && chdir(argv[2]) != 0) { perror("chdir"); return 79; }
  g_proto = fdopen(dup(1), "w"); setvbuf(g_proto, NULL, _IOLBF, 0);
  setvbuf(stdout, NULL, _IOLBF, 0);
  harness_main();
  fprintf(g_proto, "DONE fails=%d\n", g_fail); fflush(g_proto);
  return g_fail ? 2 : 0;
}

/* Models of out-of-line libstdc++ functions, compiled to IR and linked into the module (engine P). */
#include <stddef.h>
#include <stdint.h>
struct rbn { int color; struct rbn* parent; struct rbn* left; struct rbn* right; };
struct rbn* _ZSt18_Rb_tree_incrementPSt18_Rb_tree_node_base(struct rbn* x) {
  if (x->right) { x = x->right; while (x->left) x = x->left; }
  else { struct rbn* y = x->parent; while (x == y->right) { x = y; y = y->parent; } if (x->right != y) x = y; }
  return x;
}
struct rbn* _ZSt18_Rb_tree_incrementPKSt18_Rb_tree_node_base(struct rbn* x) { return _ZSt18_Rb_tree_incrementPSt18_Rb_tree_node_base(x); }
struct rbn* _ZSt18_Rb_tree_decrementPSt18_Rb_tree_node_base(struct rbn* x) {
  if (x->color == 0 && x->parent->parent == x) x = x->right;
  else if (x->left) { struct rbn* y = x->left; while (y->right) y = y->right; x = y; }
  else { struct rbn* y = x->parent; while (x == y->left) { x = y; y = y->parent; } x = y; }
  return x;
}
struct rbn* _ZSt18_Rb_tree_decrementPKSt18_Rb_tree_node_base(struct rbn* x) { return _ZSt18_Rb_tree_decrementPSt18_Rb_tree_node_base(x); }
void _ZSt29_Rb_tree_insert_and_rebalancebPSt18_Rb_tree_node_baseS0_RS_(_Bool left, struct rbn* x, struct rbn* p, struct rbn* h) {
  x->parent = p; x->left = 0; x->right = 0; x->color = 1;
  if (left) { p->left = x; if (p == h) { h->parent = x; h->right = x; } else if (p == h->left) h->left = x; }
  else { p->right = x; if (p == h->right) h->right = x; }
}
struct rbn* _ZSt28_Rb_tree_rebalance_for_erasePSt18_Rb_tree_node_baseRS_(struct rbn* z, struct rbn* h) {
  struct rbn *y = z, *x = 0;
  if (!y->left) x = y->right; else if (!y->right) x = y->left; else { y = y->right; while (y->left) y = y->left; x = y->right; }
  if (y != z) {
    z->left->parent = y; y->left = z->left;
    if (y != z->right) { if (x) x->parent = y->parent; y->parent->left = x; y->right = z->right; z->right->parent = y; }
    if (h->parent == z) h->parent = y; else if (z->parent->left == z) z->parent->left = y; else z->parent->right = y;
    y->parent = z->parent; y = z;
  } else {
    if (x) x->parent = y->parent;
    if (h->parent == z) h->parent = x; else if (z->parent->left == z) z->parent->left = x; else z->parent->right = x;
    if (h->left == z) { if (!z->right) h->left = z->parent; else { struct rbn* m = x; while (m->left) m = m->left; h->left = m; } }
    if (h->right == z) { if (!z->left) h->right = z->parent; else { struct rbn* m = x; while (m->right) m = m->right; h->right = m; } }
  }
  return y;
}
struct need_rehash { _Bool b; size_t n; };
struct need_rehash _ZNKSt8__detail20_Prime_rehash_policy14_M_need_rehashEmmm(void* self, size_t nb, size_t ne, size_t ni) {
  struct need_rehash r = { 0, 0 };
  if (ne + ni > nb) { size_t n = ne + ni, g = nb * 2; r.b = 1; r.n = (n > g ? n : g) + 1; }
  return r;
}

/* Models of out-of-line libstdc++ functions, compiled to IR and linked into the module (engine P). */
#include <stddef.h>
#include <stdint.h>
struct rbn { int color; struct rbn* parent; struct rbn* left; struct rbn* right; };
struct rbn* _ZSt18_Rb_tree_incrementPSt18_Rb_tree_node_base(struct rbn* x) {
  if (x->right) { x = x->right; while (x->left) x = x->left; }
  else { struct rbn* y = x->parent; while (x == y->right) { x = y; y = y->parent; } if (x->right != y) x = y; }
  return x;
}
struct rbn* _ZSt18_Rb_tree_incrementPKSt18_Rb_tree_node_base(struct rbn* x) { return _ZSt18_Rb_tree_incrementPSt18_Rb_tree_node_base(x); }
struct rbn* _ZSt18_Rb_tree_decrementPSt18_Rb_tree_node_base(struct rbn* x) {
  if (x->color == 0 && x->parent->parent == x) x = x->right;
  else if (x->left) { struct rbn* y = x->left; while (y->right) y = y->right; x = y; }
  else { struct rbn* y = x->parent; while (x == y->left) { x = y; y = y->parent; } x = y; }
  return x;
}
struct rbn* _ZSt18_Rb_tree_decrementPKSt18_Rb_tree_node_base(struct rbn* x) { return _ZSt18_Rb_tree_decrementPSt18_Rb_tree_node_base(x); }
void _ZSt29_Rb_tree_insert_and_rebalancebPSt18_Rb_tree_node_baseS0_RS_(_Bool left, struct rbn* x, struct rbn* p, struct rbn* h) {
  x->parent = p; x->left = 0; x->right = 0; x->color = 1;
  if (left) { p->left = x; if (p == h) { h->parent = x; h->right = x; } else if (p == h->left) h->left = x; }
  else { p->right = x; if (p == h->right) h->right = x; }
}
struct rbn* _ZSt28_Rb_tree_rebalance_for_erasePSt18_Rb_tree_node_baseRS_(struct rbn* z, struct rbn* h) {
  struct rbn *y = z, *x = 0;
  if (!y->left) x = y->right; else if (!y->right) x = y->left; else { y = y->right; while (y->left) y = y->left; x = y->right; }
  if (y != z) {
    z->left->parent = y; y->left = z->left;
    if (y != z->right) { if (x) x->parent = y->parent; y->parent->left = x; y->right = z->right; z->right->parent = y; }
    if (h->parent == z) h->parent = y; else if (z->parent->left == z) z->parent->left = y; else z->parent->right = y;
    y->parent = z->parent; y = z;
  } else {
    if (x) x->parent = y->parent;
    if (h->parent == z) h->parent = x; else if (z->parent->left == z) z->parent->left = x; else z->parent->right = x;
    if (h->left == z) { if (!z->right) h->left = z->parent; else { struct rbn* m = x; while (m->left) m = m->left; h->left = m; } }
    if (h->right == z) { if (!z->left) h->right = z->parent; else { struct rbn* m = x; while (m->right) m = m->right; h->right = m; } }
  }
  return y;
}
struct need_rehash { _Bool b; size_t n; };
struct need_rehash _ZNKSt8__detail20_Prime_rehash_policy14_M_need_rehashEmmm(void* self, size_t nb, size_t ne, size_t ni) {
  struct need_rehash r = { 0, 0 };
  if (ne + ni > nb) { size_t n = ne + ni, g = nb * 2; r.b = 1; r.n = (n > g ? n : g) + 1; }
  return r;
}
/* std::_Hash_bytes (libstdc++ hash_bytes.cc, 64-bit: a Murmur variant) — the exact function, so that std::hash<std::string> and with it the
   iteration order of std::unordered_* containers is the same in the interpreter and in the natively compiled harness */
static size_t hb_shift_mix(size_t v) { return v ^ (v >> 47); }
size_t _ZSt11_Hash_bytesPKvmm(const void* ptr, size_t len, size_t seed) {
  const size_t mul = (((size_t)0xc6a4a793UL) << 32UL) + (size_t)0x5bd1e995UL;
  const unsigned char* buf = (const unsigned char*)ptr;
  const size_t len_aligned = len & ~(size_t)0x7;
  const unsigned char* end = buf + len_aligned;
  size_t hash = seed ^ (len * mul);
  for (const unsigned char* p = buf; p != end; p += 8) {
    size_t w = 0; for (int i = 7; i >= 0; i--) w = (w << 8) + p[i];
    const size_t data = hb_shift_mix(w * mul) * mul;
    hash ^= data; hash *= mul;
  }
  if ((len & 0x7) != 0) {
    int n = (int)(len & 0x7); size_t data = 0; --n; do data = (data << 8) + end[n]; while (--n >= 0);
    hash ^= data; hash *= mul;
  }
  hash = hb_shift_mix(hash) * mul; hash = hb_shift_mix(hash);
  return hash;
}
size_t _ZSt15_Fnv_hash_bytesPKvmm(const void* ptr, size_t len, size_t hash) {
  const unsigned char* p = (const unsigned char*)ptr;
  for (; len; --len) { hash ^= (size_t)*p++; hash *= (size_t)1099511628211UL; }
  return hash;
}
struct prime_policy { float max_load; size_t next_resize; };
size_t _ZNKSt8__detail20_Prime_rehash_policy11_M_next_bktEm(struct prime_policy* self, size_t n) {
  static const size_t primes[] = { 2, 3, 5, 7, 11, 13, 17, 19, 23, 29, 31, 37, 41, 43, 47, 53, 59, 61, 67, 71, 73, 79, 83, 89, 97, 103, 109, 113, 127, 137, 139, 149, 157, 167, 179, 193, 199, 211, 227, 241, 257, 277, 293, 313, 337, 359, 383, 409, 439, 467, 503, 541, 577, 619, 661, 709, 761, 823, 887, 953, 1031, 1109, 1193, 1289, 1381, 1493, 1613, 1741, 1879, 2029, 2179, 2357, 2549, 2753, 2971, 3209, 3469, 3739, 4027, 4349, 4703, 5087, 5503, 5953, 6427, 6949, 7517, 8123, 8783, 9497, 10273, 11113, 12011, 12983, 14033, 15173, 16411, 17749, 19183, 20753, 22447, 24281, 26267, 28411, 30727, 33223, 35933, 38873, 42043, 45481, 49201, 53201, 57557, 62233, 67307, 72817, 78779, 85229, 92203, 99733, 107897, 116731, 126271, 136607 };
  size_t r = primes[sizeof primes / sizeof primes[0] - 1];
  for (size_t i = 0; i < sizeof primes / sizeof primes[0]; i++) if (primes[i] >= n) { r = primes[i]; break; }
  self->next_resize = (size_t)((float)r * self->max_load);
  return r;
}
/* std::list node hooks */
struct lnb { struct lnb* next; struct lnb* prev; };
void _ZNSt8__detail15_List_node_base7_M_hookEPS0_(struct lnb* self, struct lnb* pos) { self->next = pos; self->prev = pos->prev; pos->prev->next = self; pos->prev = self; }
void _ZNSt8__detail15_List_node_base9_M_unhookEv(struct lnb* self) { struct lnb* n = self->next; struct lnb* p = self->prev; p->next = n; n->prev = p; }
void _ZNSt8__detail15_List_node_base11_M_transferEPS0_S1_(struct lnb* self, struct lnb* first, struct lnb* last) {
  if (self != last) { last->prev->next = self; first->prev->next = last; self->prev->next = first;
    struct lnb* tmp = self->prev; self->prev = last->prev; last->prev = first->prev; first->prev = tmp; }
}

#include <bits/c++config.h>
#undef _GLIBCXX_EXTERN_TEMPLATE
#define _GLIBCXX_EXTERN_TEMPLATE -1

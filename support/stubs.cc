#include "build.h"
#include "explanations.h"
#include "metrics.h"
extern "C" { void __CPROVER_assume(bool); void __CPROVER_assert(bool, const char*); }
static int64_t g_time_ms;
int64_t GetTimeMillis() { return g_time_ms++; }
Metrics* g_metrics = nullptr;
ScopedMetric::ScopedMetric(Metric* m) { metric_ = m; }
ScopedMetric::~ScopedMetric() {}
Metric* Metrics::NewMetric(const std::string&) { return nullptr; }
Explanations::Explanations(Status* s) : status_(s) {}
OptionalExplanations::OptionalExplanations(Explanations* e) : explanations_(e) {}
void OptionalExplanations::Record(const void*, const char*, ...) {}
void OptionalExplanations::ExplainDyndepLoad(const Node*) {}
#ifndef VERIF_REAL_RUNNER
// cut point: harnesses that reach Builder through NinjaMain install their runner here
CommandRunner* (*verif_runner_factory)(const BuildConfig&, Jobserver::Client*) = nullptr;
CommandRunner* CommandRunner::factory(const BuildConfig& c, Jobserver::Client* j) { if (verif_runner_factory) return verif_runner_factory(c, j); __CPROVER_assert(false, "cut: CommandRunner::factory"); return nullptr; }
#endif
